/-
  H5.Spec.TreeConstruction.Main — 13.2.6 the tree-construction dispatcher, the recursion knot,
  the driver loop over a token list, and the tree-construction part of the HTML fragment parsing
  algorithm (13.4).
-/
import H5.Spec.TreeConstruction.ModesRest
namespace H5.Spec.TC
open H5

def runMode (r : Rec) (m : Mode) (t : Token) : M Unit :=
  match m with
  | .initial => modeInitial r t
  | .beforeHtml => modeBeforeHtml r t
  | .beforeHead => modeBeforeHead r t
  | .inHead => modeInHead r t
  | .inHeadNoscript => modeInHeadNoscript r t
  | .afterHead => modeAfterHead r t
  | .inBody => modeInBody r t
  | .text => modeText r t
  | .inTable => modeInTable r t
  | .inTableText => modeInTableText r t
  | .inCaption => modeInCaption r t
  | .inColumnGroup => modeInColumnGroup r t
  | .inTableBody => modeInTableBody r t
  | .inRow => modeInRow r t
  | .inCell => modeInCell r t
  | .inSelect => modeInSelect r t
  | .inSelectInTable => modeInSelectInTable r t
  | .inTemplate => modeInTemplate r t
  | .afterBody => modeAfterBody r t
  | .inFrameset => modeInFrameset r t
  | .afterFrameset => modeAfterFrameset r t
  | .afterAfterBody => modeAfterAfterBody r t
  | .afterAfterFrameset => modeAfterAfterFrameset r t

/-- the tree-construction dispatcher: HTML content or foreign content? -/
def useHtmlRules (t : Token) : M Bool := do
  match ← adjustedCurrentNode with
  | none => pure true                                           -- the stack of open elements is empty
  | some acn =>
    match ← etypeOf acn with
    | some (.html, _) => pure true                              -- an element in the HTML namespace
    | some (ns, nm) =>
      let textIP ← isMathMLTextIP acn
      let htmlIP ← isHtmlIP acn
      match t with
      | .eof => pure true
      | .startTag name _ _ =>
        if textIP && name != lit "mglyph" && name != lit "malignmark" then pure true
        else if ns == .mathml && nm == lit "annotation-xml" && name == lit "svg" then pure true
        else pure htmlIP
      | .char _ => pure (textIP || htmlIP)
      | _ => pure false
    | none => pure true

/-- tie the knot: `fuel` bounds the nesting of "process using the rules for" / "reprocess" -/
def knot : Nat → Rec
  | 0 => { rules := fun _ _ => outOfFuel "using", reprocess := fun _ => outOfFuel "reprocess" }
  | fuel + 1 =>
    let r := knot fuel
    { rules := fun m t => runMode r m t,
      reprocess := fun t => do
        if ← useHtmlRules t then runMode r (← get).mode t
        else foreignContent r t }

def dispatchN (fuel : Nat) (t : Token) : M Unit := (knot fuel).reprocess t

/-- nesting bound: every reprocessing step follows a change of insertion mode or a pop; a long
chain (e.g. `</table>` closing caption → … ) stays far below this -/
def dispatchFuel (s : St) : Nat := 64 + 2 * s.stack.length

/-- process one token (with the "next token is LF" rule of pre / listing / textarea) -/
def processToken (t : Token) : M Unit := do
  let s ← get
  if s.stopped then return
  if s.skipNextLF && !s.dev.dropNewlineHtml5lib then
    set { s with skipNextLF := false }
    if t == .char 10 then return
  dispatchN (dispatchFuel s) t

/-! ### input conversion -/

/-- tokenizer tokens → tree-construction tokens (one per character; `parseError` is not a token) -/
def ofTTok (charsRunUnit : Bool := false) : TTok → List Token
  | .doctype n p s correct => [.doctype n p s (!correct)]
  | .chars s =>
    -- NON-STANDARD (Dev.charsRunUnit): html5lib hands a whole run to the non-whitespace rule
    if charsRunUnit then s.map fun c => .char (if isWs c then c + 0x200000 else c) else s.map .char
  | .space s => s.map .char
  | .startTag n a sc => [.startTag n a sc]
  | .endTag n _ _ => [.endTag n]
  | .comment d => [.comment d]
  | .parseError _ _ => []

structure Config where
  context : Option Str := none
  scripting : Bool := false
  /-- NON-STANDARD switches (see `Dev`); the default is the standard -/
  dev : Dev := {}

/-- the initial tokenizer state the fragment algorithm selects for the context element -/
def initialTokenizerState (cfg : Config) : Option TokSwitch :=
  match cfg.context with
  | none => none
  | some c =>
    if among c (strs ["title", "textarea"]) then some .rcdata
    else if among c (strs ["style", "xmp", "iframe", "noembed", "noframes"]) then some .rawtext
    else if c == lit "script" then some (if cfg.dev.contextScriptRawtext then .rawtext else .scriptData)
    else if c == lit "noscript" then
      (if cfg.scripting || cfg.dev.contextScriptRawtext then some .rawtext else none)
    else if c == lit "plaintext" then some .plaintext
    else none

/-- a new parser; for the fragment case, steps 1–13 of the HTML fragment parsing algorithm that
concern tree construction -/
def initState (cfg : Config) : Except PyErr St := do
  let arena : Array Node := #[{ kind := .document }]
  let s : St := { arena := arena, document := 0, scripting := cfg.scripting, dev := cfg.dev }
  match cfg.context with
  | none => pure s
  | some ctxName =>
    let act : M Unit := do
      -- the context element: an HTML element (html5lib's API gives only its local name)
      let ctx ← createElement .html ctxName []
      -- 5. root := a new html element;  6. append it to the Document;  7. stack := [root]
      let root ← createElement .html (lit "html") []
      appendNode 0 root
      modify fun s => { s with context := some ctx, stack := [root] }
      -- 8. context is a template element: push "in template"
      if ctxName == lit "template" then
        modify fun s => { s with templateModes := [.inTemplate] }
      -- 10. reset the insertion mode appropriately
      resetInsertionMode
      -- 11. form element pointer := nearest form ancestor of the context element, including itself
      if ctxName == lit "form" && !cfg.dev.noFormContext then
        modify fun s => { s with formPointer := some ctx }
    match act.run s with
    | .ok (_, s) => pure s
    | .error e => .error e

structure Result where
  tree : Tree
  /-- (index of the tokenizer token, state) for every switch the standard prescribes -/
  switches : List (Nat × TokSwitch)
  initial : Option TokSwitch

def runTokens (cfg : Config) (toks : List TTok) : Except PyErr Result := do
  let s0 ← initState cfg
  let rec go (s : St) (i : Nat) (acc : List (Nat × TokSwitch)) : List TTok → Except PyErr (St × List (Nat × TokSwitch))
    | [] => pure (s, acc.reverse)
    | t :: rest => do
      let s := { s with tokSwitch := none }
      let act : M Unit := do
        for tk in ofTTok cfg.dev.charsRunUnit t do processToken tk
      let (_, s) ← act.run s
      go s (i + 1) (match s.tokSwitch with | some sw => (i, sw) :: acc | none => acc) rest
  let (s, sws) ← go s0 0 [] toks
  let (_, s) ← (processToken .eof).run s
  let fuel := s.arena.size + 1
  let tree :=
    match cfg.context with
    | none => (toTreeAux s.arena fuel s.document).headD (Tree.doc [])
    | some _ =>
      -- 14. return the child nodes of root
      match (s.arena[s.document]?.map (·.children)).getD [] with
      | root :: _ =>
        match (toTreeAux s.arena fuel root).head? with
        | some (Tree.elem _ _ _ kids) => Tree.frag kids
        | _ => Tree.frag []
      | [] => Tree.frag []
  pure { tree := tree, switches := sws, initial := initialTokenizerState cfg }

end H5.Spec.TC
