/-
  H5.Spec.TreeConstruction.ModesTable — 13.2.6.4.9 – 13.2.6.4.15: "in table", "in table text",
  "in caption", "in column group", "in table body", "in row", "in cell".
-/
import H5.Spec.TreeConstruction.ModesBody
namespace H5.Spec.TC
open H5

/-! ### 13.2.6.4.9 The "in table" insertion mode -/

/-- the "anything else" entry: parse error; enable foster parenting, process the token using the
rules for "in body", disable foster parenting -/
def inTableAnythingElse (r : Rec) (t : Token) : M Unit := do
  modify fun s => { s with fosterParenting := true }
  r.rules .inBody t
  modify fun s => { s with fosterParenting := false }

def modeInTable (r : Rec) (t : Token) : M Unit := do
  match t with
  | .char _ =>
    if (← currentIsAmong (strs ["table", "tbody", "tfoot", "thead", "tr"])) || (← get).dev.tableTextAlways then
      modify fun s => { s with pendingTableChars := [], originalMode := s.mode }
      setMode .inTableText
      r.reprocess t
    else inTableAnythingElse r t
  | .comment d => insertComment d
  | .doctype .. => pure ()
  | .startTag name attrs _ =>
    let is (n : String) : Bool := name == lit n
    if is "caption" then
      clearToTableContext
      pushMarker
      let _ ← insertHtmlElement name attrs
      setMode .inCaption
    else if is "colgroup" then
      clearToTableContext
      let _ ← insertHtmlElement name attrs
      setMode .inColumnGroup
    else if is "col" then
      clearToTableContext
      insertHtml "colgroup"
      setMode .inColumnGroup
      r.reprocess t
    else if among name (strs ["tbody", "tfoot", "thead"]) then
      clearToTableContext
      let _ ← insertHtmlElement name attrs
      setMode .inTableBody
    else if among name (strs ["td", "th", "tr"]) then
      clearToTableContext
      insertHtml "tbody"
      setMode .inTableBody
      r.reprocess t
    else if is "table" && (← get).dev.tableStartTagViaCurrentMode then
      -- NON-STANDARD (Dev): html5lib's reading of the 2011 wording "act as if an end tag table had been seen"
      -- (the implied `</table>` goes through the rules of the CURRENT mode, and the token those rules
      -- hand back for reprocessing is dropped)
      match (← get).mode with
      | .inRow =>
        if ← hasInScope .table (lit "tr") then
          clearToTableRowContext
          pop
          setMode .inTableBody
      | .inTableBody =>
        if ← hasAnyInScope .table (strs ["tbody", "thead", "tfoot"]) then
          clearToTableBodyContext
          pop
          setMode .inTable
      | _ =>
        if ← hasInScope .table (lit "table") then
          popUntilHtml (lit "table")
          resetInsertionMode
      if (← get).context.isNone then r.reprocess t
    else if is "table" then
      -- parse error
      if !(← hasInScope .table (lit "table")) then pure ()
      else
        popUntilHtml (lit "table")
        resetInsertionMode
        r.reprocess t
    else if among name (strs ["style", "script", "template"]) then r.rules .inHead t
    else if is "input" then
      match attrValue? attrs "type" with
      | some v =>
        if eqCI v (lit "hidden") then
          -- parse error; insert, pop, acknowledge the self-closing flag
          let _ ← insertHtmlElement name attrs
          pop
        else inTableAnythingElse r t
      | none => inTableAnythingElse r t
    else if is "form" then
      -- parse error
      if (← stackHasHtml (lit "template")) || (← get).formPointer.isSome then pure ()
      else
        let el ← insertHtmlElement name attrs
        modify fun s => { s with formPointer := some el }
        pop
    else inTableAnythingElse r t
  | .endTag name =>
    if name == lit "table" then
      if !(← hasInScope .table (lit "table")) then pure ()      -- parse error, ignore
      else
        popUntilHtml (lit "table")
        resetInsertionMode
    else if among name (strs ["body", "caption", "col", "colgroup", "html", "tbody", "td", "tfoot",
        "th", "thead", "tr"]) then pure ()                      -- parse error, ignore
    else if name == lit "template" then r.rules .inHead t
    else inTableAnythingElse r t
  | .eof => r.rules .inBody t

/-! ### 13.2.6.4.10 The "in table text" insertion mode -/

def modeInTableText (r : Rec) (t : Token) : M Unit := do
  match t with
  | .char c =>
    if c == 0 then pure ()                        -- parse error, ignore
    else modify fun s => { s with pendingTableChars := s.pendingTableChars ++ [c] }
  | .doctype .. =>
    if (← get).dev.tableTextDoctypeNoFlush then pure ()            -- NON-STANDARD (Dev)
    else anythingElse
  | _ => anythingElse
where
  anythingElse : M Unit := do
    let s ← get
    let pending := s.pendingTableChars
    if pending.any (fun c => !isWs c) then
      -- parse error: reprocess the character tokens using the rules given in the "anything else"
      -- entry in the "in table" insertion mode
      for c in pending do inTableAnythingElse r (.char c)
    else
      for c in pending do insertChar c
    setMode s.originalMode
    r.reprocess t

/-! ### 13.2.6.4.11 The "in caption" insertion mode -/

/-- the steps shared by `</caption>` and the tokens that imply it; false = token ignored -/
def closeCaption : M Bool := do
  if !(← hasInScope .table (lit "caption")) then pure false     -- parse error, ignore
  else
    generateImpliedEndTags
    popUntilHtml (lit "caption")
    clearAfeToLastMarker
    setMode .inTable
    pure true

def modeInCaption (r : Rec) (t : Token) : M Unit := do
  match t with
  | .endTag name =>
    if name == lit "caption" then
      let _ ← closeCaption
    else if name == lit "table" then
      if ← closeCaption then r.reprocess t
    else if among name (strs ["body", "col", "colgroup", "html", "tbody", "td", "tfoot", "th", "thead",
        "tr"]) then pure ()
    else r.rules .inBody t
  | .startTag name _ _ =>
    if among name (strs ["caption", "col", "colgroup", "tbody", "td", "tfoot", "th", "thead", "tr"]) then
      if ← closeCaption then r.reprocess t
    else r.rules .inBody t
  | .char c =>
    if isWs c && (← get).dev.wsNoReconstruct then insertChar c       -- NON-STANDARD (Dev)
    else r.rules .inBody t
  | _ => r.rules .inBody t

/-! ### 13.2.6.4.12 The "in column group" insertion mode -/

def modeInColumnGroup (r : Rec) (t : Token) : M Unit := do
  match t with
  | .char c => if isWs c then insertChar c else anythingElse
  | .comment d => insertComment d
  | .doctype .. => pure ()
  | .startTag name attrs _ =>
    if name == lit "html" then r.rules .inBody t
    else if name == lit "col" then
      let _ ← insertHtmlElement name attrs
      pop
    else if name == lit "template" then r.rules .inHead t
    else anythingElse
  | .endTag name =>
    if name == lit "colgroup" then
      if !(← currentIs (lit "colgroup")) then pure ()           -- parse error, ignore
      else
        pop
        setMode .inTable
    else if name == lit "col" then pure ()
    else if name == lit "template" then r.rules .inHead t
    else anythingElse
  | .eof => r.rules .inBody t
where
  anythingElse : M Unit := do
    if !(← currentIs (lit "colgroup")) then pure ()             -- parse error, ignore
    else
      pop
      setMode .inTable
      r.reprocess t

/-! ### 13.2.6.4.13 The "in table body" insertion mode -/

def modeInTableBody (r : Rec) (t : Token) : M Unit := do
  let closeBody : M Unit := do
    -- tbody/thead/tfoot in table scope?  otherwise parse error, ignore
    if !(← hasAnyInScope .table (strs ["tbody", "thead", "tfoot"])) then pure ()
    else
      clearToTableBodyContext
      -- act as if an end tag with the same name as the current node had been seen
      pop
      setMode .inTable
      r.reprocess t
  match t with
  | .startTag name attrs _ =>
    if name == lit "tr" then
      clearToTableBodyContext
      let _ ← insertHtmlElement name attrs
      setMode .inRow
    else if among name (strs ["th", "td"]) then
      -- parse error
      clearToTableBodyContext
      insertHtml "tr"
      setMode .inRow
      r.reprocess t
    else if among name (strs ["caption", "col", "colgroup", "tbody", "tfoot", "thead"]) then closeBody
    else r.rules .inTable t
  | .endTag name =>
    if among name (strs ["tbody", "tfoot", "thead"]) then
      if !(← hasInScope .table name) then pure ()
      else
        clearToTableBodyContext
        pop
        setMode .inTable
    else if name == lit "table" then closeBody
    else if among name (strs ["body", "caption", "col", "colgroup", "html", "td", "th", "tr"]) then pure ()
    else r.rules .inTable t
  | _ => r.rules .inTable t

/-! ### 13.2.6.4.14 The "in row" insertion mode -/

def modeInRow (r : Rec) (t : Token) : M Unit := do
  let closeRow (again : Bool) : M Unit := do
    if !(← hasInScope .table (lit "tr")) then pure ()           -- parse error, ignore
    else
      clearToTableRowContext
      pop                                                       -- the tr element
      setMode .inTableBody
      if again then r.reprocess t
  match t with
  | .startTag name attrs _ =>
    if among name (strs ["th", "td"]) then
      clearToTableRowContext
      let _ ← insertHtmlElement name attrs
      setMode .inCell
      pushMarker
    else if among name (strs ["caption", "col", "colgroup", "tbody", "tfoot", "thead", "tr"]) then
      closeRow true
    else r.rules .inTable t
  | .endTag name =>
    if name == lit "tr" then closeRow false
    else if name == lit "table" then closeRow true
    else if among name (strs ["tbody", "tfoot", "thead"]) then
      if !(← hasInScope .table name) then pure ()
      else closeRow true
    else if among name (strs ["body", "caption", "col", "colgroup", "html", "td", "th"]) then pure ()
    else r.rules .inTable t
  | _ => r.rules .inTable t

/-! ### 13.2.6.4.15 The "in cell" insertion mode -/

def modeInCell (r : Rec) (t : Token) : M Unit := do
  match t with
  | .endTag name =>
    if among name (strs ["td", "th"]) then
      if !(← hasInScope .table name) then pure ()
      else
        generateImpliedEndTags
        popUntilHtml name
        clearAfeToLastMarker
        setMode .inRow
    else if among name (strs ["body", "caption", "col", "colgroup", "html"]) then pure ()
    else if among name (strs ["table", "tbody", "tfoot", "thead", "tr"]) then
      if !(← hasInScope .table name) then pure ()
      else
        closeCell
        r.reprocess t
    else r.rules .inBody t
  | .startTag name _ _ =>
    if among name (strs ["caption", "col", "colgroup", "tbody", "td", "tfoot", "th", "thead", "tr"]) then
      if !(← hasAnyInScope .table (strs ["td", "th"])) then pure ()    -- parse error, ignore (fragment case)
      else
        closeCell
        r.reprocess t
    else r.rules .inBody t
  | .char c =>
    if isWs c && (← get).dev.wsNoReconstruct then insertChar c       -- NON-STANDARD (Dev)
    else r.rules .inBody t
  | _ => r.rules .inBody t

end H5.Spec.TC
