/-
  H5.Spec.Url — the scheme a browser resolves for an attribute value, written from the URL standard
  (https://url.spec.whatwg.org/#concept-basic-url-parser), independent of the model:

    1. remove any leading and trailing C0 control or space from input;
    2. remove all ASCII tab or newline from input;
    3. scheme start state: an ASCII alpha is appended (lower-cased) to buffer, go to scheme state;
       anything else: no scheme;
    4. scheme state: ASCII alphanumeric, `+`, `-`, `.` are appended (lower-cased); `:` ends the scheme
       (scheme = buffer); anything else (or end of input): no scheme.
-/
import H5.Basic
namespace H5.Spec.Url
open H5

/-- C0 control or space: U+0000..U+0020 -/
def isC0OrSpace (c : Nat) : Bool := c ≤ 32
/-- ASCII tab or newline: U+0009, U+000A, U+000D -/
def isTabOrNewline (c : Nat) : Bool := c = 9 || c = 10 || c = 13
def isAlpha (c : Nat) : Bool := (65 ≤ c && c ≤ 90) || (97 ≤ c && c ≤ 122)
def isSchemeCp (c : Nat) : Bool := isAlpha c || (48 ≤ c && c ≤ 57) || c = 43 || c = 45 || c = 46
def toLower (c : Nat) : Nat := if 65 ≤ c ∧ c ≤ 90 then c + 32 else c

def stripLeading (s : Str) : Str := s.dropWhile isC0OrSpace

def stripTrailing : Str → Str
  | [] => []
  | c :: r =>
    match stripTrailing r with
    | [] => if isC0OrSpace c then [] else [c]
    | r' => c :: r'

/-- scheme state -/
def schemeState : Str → Option Str
  | [] => none
  | c :: r =>
    if c = 58 then some []
    else if isSchemeCp c then (schemeState r).map (toLower c :: ·)
    else none

/-- scheme start state -/
def schemeStart : Str → Option Str
  | [] => none
  | c :: r => if isAlpha c then (schemeState r).map (toLower c :: ·) else none

/-- the scheme of `v` as the basic URL parser determines it (`none`: the value is relative to the base URL) -/
def browserScheme (v : Str) : Option Str :=
  schemeStart ((stripTrailing (stripLeading v)).filter (fun c => !isTabOrNewline c))

end H5.Spec.Url
