/-
  H5.Spec.TokProps — universally quantified facts about the specification alone
  (no Model, no html5lib): sanity of the executable standard.
-/
import H5.Spec.Tokenizer
import H5.Spec.Compare
namespace H5.Spec.TokProps
open H5 H5.Spec H5.Spec.Tokenizer

/-! ### Numeric character references always denote a scalar value -/

/-- every row of the C1 table (and every unmapped control) stays below the surrogates -/
theorem c1_lookup_small : ∀ n, n < 160 → (c1ReplacementTable.lookup n).getD n < 0xD800 := by
  decide +kernel

/-- **13.2.5.80**: whatever number a numeric character reference spells, the code point that is
flushed is a Unicode scalar value: at most U+10FFFF and not a surrogate.  (It is U+FFFD for 0, for
surrogates and for numbers above U+10FFFF.) -/
theorem numericRef_scalar (n : Nat) :
    (numericRef n).1 ≤ 0x10FFFF ∧ isSurrogate (numericRef n).1 = false := by
  unfold numericRef
  split
  · decide
  · split
    · decide
    · split
      · decide
      · rename_i h0 hmax hsur
        have hle : n ≤ 0x10FFFF := by omega
        have hs : isSurrogate n = false := by simpa using hsur
        split
        · exact ⟨hle, hs⟩
        · split
          · rename_i hctl
            -- a control (or 0x0D) is below 160
            have hlt : n < 160 := by
              simp only [Bool.or_eq_true] at hctl
              rcases hctl with h | h
              · have : n = 0x0D := by simpa using h
                omega
              · have hc : isControl n = true := by
                  simp only [Bool.and_eq_true] at h; exact h.1
                simp only [isControl, Bool.or_eq_true, Bool.and_eq_true, decide_eq_true_eq] at hc
                omega
            have := c1_lookup_small n hlt
            refine ⟨?_, ?_⟩
            · show (c1ReplacementTable.lookup n).getD n ≤ 0x10FFFF
              omega
            · show isSurrogate ((c1ReplacementTable.lookup n).getD n) = false
              simp only [isSurrogate, Bool.and_eq_false_iff, decide_eq_false_iff_not]
              left; omega
          · exact ⟨hle, hs⟩

/-- the replaced values: 0, surrogates and out-of-range numbers give U+FFFD -/
theorem numericRef_zero : (numericRef 0).1 = 0xFFFD := by decide
theorem numericRef_big (n : Nat) (h : n > 0x10FFFF) : (numericRef n).1 = 0xFFFD := by
  unfold numericRef
  have : (n == 0) = false := by simp; omega
  simp [this, h, REPLACEMENT]
theorem numericRef_surrogate (n : Nat) (h : isSurrogate n = true) : (numericRef n).1 = 0xFFFD := by
  unfold numericRef
  simp only [isSurrogate, Bool.and_eq_true, decide_eq_true_eq] at h
  have h0 : (n == 0) = false := by simp; omega
  have h1 : ¬ n > 0x10FFFF := by omega
  have h2 : isSurrogate n = true := by simp [isSurrogate]; omega
  simp [h0, h1, h2, REPLACEMENT]

/-- a number that is neither 0, out of range, a surrogate nor a control is left alone -/
theorem numericRef_id (n : Nat) (h0 : n ≠ 0) (hmax : n ≤ 0x10FFFF) (hs : isSurrogate n = false)
    (hc : isControl n = false) : (numericRef n).1 = n := by
  unfold numericRef
  have a : (n == 0) = false := by simp [h0]
  have b : ¬ n > 0x10FFFF := by omega
  have hd : (n == 0x0D) = false := by
    simp only [isControl, Bool.or_eq_false_iff, decide_eq_false_iff_not] at hc
    simp; omega
  simp only [a, b, hs, hc, hd]
  repeat' split
  all_goals simp_all

/-! ### ASCII lower-casing -/

/-- lower-casing never produces an ASCII upper alpha: tag names, attribute names and DOCTYPE names
built through `toLower` contain no `A`–`Z` -/
theorem toLower_not_upper (c : Nat) : isASCIIUpperAlpha (toLower c) = false := by
  unfold toLower
  split
  · rename_i h
    simp only [isASCIIUpperAlpha, Bool.and_eq_true, decide_eq_true_eq] at h
    simp only [isASCIIUpperAlpha, Bool.and_eq_false_iff, decide_eq_false_iff_not]; omega
  · rename_i h; simpa using h

theorem toLower_idem (c : Nat) : toLower (toLower c) = toLower c := by
  have h2 := toLower_not_upper c
  generalize toLower c = d at h2 ⊢
  unfold toLower
  simp [h2]

theorem asciiLowercase_idem (s : Str) : asciiLowercase (asciiLowercase s) = asciiLowercase s := by
  unfold asciiLowercase
  rw [List.map_map]
  apply List.map_congr_left
  intro c _
  exact toLower_idem c

/-! ### `canon` is idempotent -/

/-- a token as `canon` leaves it -/
def IsCanonTok : TTok → Prop
  | .parseError _ _ => False
  | .space _ => False
  | .chars s => s ≠ []
  | .endTag _ a sc => a = [] ∧ sc = false
  | .doctype n _ _ _ => n ≠ some []
  | _ => True

theorem canonTok_isCanon {t u : TTok} (h : canonTok t = some u) : IsCanonTok u := by
  cases t with
  | parseError c v => simp [canonTok] at h
  | chars s =>
    simp only [canonTok] at h
    split at h
    · simp at h
    · rename_i hs; cases h; simpa [IsCanonTok] using hs
  | space s =>
    simp only [canonTok] at h
    split at h
    · simp at h
    · rename_i hs; cases h; simpa [IsCanonTok] using hs
  | endTag n a sc => simp only [canonTok] at h; cases h; simp [IsCanonTok]
  | startTag n a sc => simp only [canonTok] at h; cases h; simp [IsCanonTok]
  | comment s => simp only [canonTok] at h; cases h; simp [IsCanonTok]
  | doctype n p s c =>
    cases n with
    | none => simp only [canonTok] at h; cases h; simp [IsCanonTok]
    | some nm =>
      cases nm with
      | nil => simp only [canonTok] at h; cases h; simp [IsCanonTok]
      | cons x xs => simp only [canonTok] at h; cases h; simp [IsCanonTok]

theorem canonTok_of_isCanon {t : TTok} (h : IsCanonTok t) : canonTok t = some t := by
  cases t with
  | parseError c v => simp [IsCanonTok] at h
  | space s => simp [IsCanonTok] at h
  | chars s =>
    simp only [IsCanonTok] at h
    simp [canonTok, h]
  | endTag n a sc => simp only [IsCanonTok] at h; obtain ⟨rfl, rfl⟩ := h; rfl
  | startTag n a sc => rfl
  | comment s => rfl
  | doctype n p s c =>
    cases n with
    | none => rfl
    | some nm =>
      cases nm with
      | nil => simp [IsCanonTok] at h
      | cons x xs => rfl

/-- no two adjacent character tokens -/
def NoAdjChars : List TTok → Prop
  | .chars _ :: .chars b :: rest => False ∧ NoAdjChars (.chars b :: rest)
  | _ :: rest => NoAdjChars rest
  | [] => True

theorem filterMap_canonTok_id : ∀ (l : List TTok), (∀ t ∈ l, IsCanonTok t) → l.filterMap canonTok = l
  | [], _ => rfl
  | t :: rest, h => by
    have ht := canonTok_of_isCanon (h t (by simp))
    have hr := filterMap_canonTok_id rest (fun u hu => h u (by simp [hu]))
    simp [ht, hr]

theorem mergeChars_all {P : TTok → Prop} (hP : ∀ a b, P (.chars a) → P (.chars b) → P (.chars (a ++ b))) :
    ∀ (l : List TTok), (∀ t ∈ l, P t) → ∀ t ∈ mergeChars l, P t
  | [], _ => by simp [mergeChars]
  | t :: rest, h => by
    have ih := mergeChars_all hP rest (fun u hu => h u (by simp [hu]))
    cases t with
    | chars a =>
      simp only [mergeChars]
      split
      · rename_i b rest' heq
        intro t ht
        rw [heq] at ih
        simp only [List.mem_cons] at ht
        rcases ht with rfl | ht
        · exact hP a b (h _ (by simp)) (ih _ (by simp))
        · exact ih t (by simp [ht])
      · intro t ht
        simp only [List.mem_cons] at ht
        rcases ht with rfl | ht
        · exact h _ (by simp)
        · exact ih t ht
    | parseError c v =>
      simp only [mergeChars]; intro t ht; simp only [List.mem_cons] at ht
      rcases ht with rfl | ht
      · exact h _ (by simp)
      · exact ih t ht
    | space s =>
      simp only [mergeChars]; intro t ht; simp only [List.mem_cons] at ht
      rcases ht with rfl | ht
      · exact h _ (by simp)
      · exact ih t ht
    | endTag n a sc =>
      simp only [mergeChars]; intro t ht; simp only [List.mem_cons] at ht
      rcases ht with rfl | ht
      · exact h _ (by simp)
      · exact ih t ht
    | startTag n a sc =>
      simp only [mergeChars]; intro t ht; simp only [List.mem_cons] at ht
      rcases ht with rfl | ht
      · exact h _ (by simp)
      · exact ih t ht
    | comment s =>
      simp only [mergeChars]; intro t ht; simp only [List.mem_cons] at ht
      rcases ht with rfl | ht
      · exact h _ (by simp)
      · exact ih t ht
    | doctype n p s c =>
      simp only [mergeChars]; intro t ht; simp only [List.mem_cons] at ht
      rcases ht with rfl | ht
      · exact h _ (by simp)
      · exact ih t ht

/-- `mergeChars` is idempotent -/
theorem mergeChars_idem : ∀ (l : List TTok), mergeChars (mergeChars l) = mergeChars l
  | [] => rfl
  | t :: rest => by
    have ih := mergeChars_idem rest
    cases t with
    | chars a =>
      simp only [mergeChars]
      split
      · rename_i b rest' heq
        rw [heq] at ih
        -- mergeChars (chars b :: rest') = chars b :: rest'  ⇒ mergeChars rest' does not start with chars
        simp only [mergeChars]
        simp only [mergeChars] at ih
        split
        · rename_i c rest'' heq2
          rw [heq2] at ih
          simp only [List.cons.injEq, TTok.chars.injEq] at ih
          -- b ++ c = b forces c = [], but then rest'' … ; derive contradiction on lengths of the lists
          obtain ⟨h1, h2⟩ := ih
          have : (rest'').length = rest'.length := by rw [h2]
          -- mergeChars never lengthens a list
          exfalso
          have hl : ∀ l : List TTok, (mergeChars l).length ≤ l.length := by
            intro l
            induction l with
            | nil => simp [mergeChars]
            | cons x xs ihx =>
              cases x <;> simp only [mergeChars, List.length_cons] <;> try omega
              split
              · rename_i heq3; rw [heq3] at ihx; simp only [List.length_cons] at ihx ⊢; omega
              · simp only [List.length_cons]; omega
          have := hl rest'
          rw [heq2] at this
          simp only [List.length_cons] at this
          omega
        · rename_i hne
          split at ih
          · rename_i c rest'' heq2
            exact absurd heq2 (by intro hh; exact hne c rest'' hh)
          · simp only [List.cons.injEq, true_and] at ih
            rw [ih]
      · rename_i hne
        simp only [mergeChars]
        rw [ih]
        split
        · rename_i b rest' heq; exact absurd heq (hne b rest')
        · rfl
    | parseError c v => simp only [mergeChars, ih]
    | space s => simp only [mergeChars, ih]
    | endTag n a sc => simp only [mergeChars, ih]
    | startTag n a sc => simp only [mergeChars, ih]
    | comment s => simp only [mergeChars, ih]
    | doctype n p s c => simp only [mergeChars, ih]

theorem canon_all_isCanon (ts : List TTok) : ∀ t ∈ canon ts, IsCanonTok t := by
  unfold canon
  apply mergeChars_all (P := IsCanonTok)
  · intro a b ha _
    simp only [IsCanonTok] at ha ⊢
    intro h
    exact ha (List.append_eq_nil_iff.mp h).1
  · intro t ht
    obtain ⟨u, _, hu⟩ := List.mem_filterMap.mp ht
    exact canonTok_isCanon hu

/-- **`canon` is idempotent**: canonical streams are fixed points, so `agree` compares normal forms. -/
theorem canon_idem (ts : List TTok) : canon (canon ts) = canon ts := by
  have h := filterMap_canonTok_id (canon ts) (canon_all_isCanon ts)
  show mergeChars ((canon ts).filterMap canonTok) = canon ts
  rw [h]
  unfold canon
  exact mergeChars_idem _

/-- canonicalising one side first does not change the verdict -/
theorem agree_canon_left (a b : List TTok) : agree (canon a) b = agree a b := by
  simp [agree, canon_idem]

end H5.Spec.TokProps
