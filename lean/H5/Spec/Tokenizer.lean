/-
  H5.Spec.Tokenizer — executable specification of the *tokenization* stage of the WHATWG
  HTML standard (section 13.2.5 "Tokenization", revision of mid-2020, the one html5lib 1.1
  claims to target).

  Written from the prose of the standard, state by state, in the order of the standard, with the
  standard's state names and the standard's parse-error names.  It is deliberately NOT derived
  from html5lib's `_tokenizer.py` nor from `H5.Model.Tokenizer`: it is the oracle the model is
  compared with (`H5.Spec.Compare`, driver ops `spec-tok` / `tokcmp`, `tools/spec_corr.py`).

  Conventions
  * The input is a list of code points that has already gone through "preprocessing the input
    stream" (newlines normalised: no CR).  EOF is the empty list.
  * One call of a state function = one pass through "Consume the next input character: …" of
    that state.  A state function gets the machine and the remaining input and returns the new
    machine and the new remaining input: returning the tail = the character was consumed,
    returning the input unchanged = "Reconsume in the … state" (or a state that consumes
    nothing).  Only three places look further than one character, exactly as the standard does:
    the markup declaration open state ("if the next few characters are"), the after DOCTYPE name
    state ("if the six characters starting from the current input character are"), and the named
    character reference state ("consume the maximum number of characters possible").
  * Tokens are emitted in the carrier type `TTok`:
      DOCTYPE token   → `.doctype name? publicId? systemId? (correct := !forceQuirks)`
                        (a missing name / identifier is `none`)
      start tag token → `.startTag name attrs selfClosing`, attributes in source order, a
                        duplicate attribute removed ("the new attribute must be removed")
      end tag token   → `.endTag name [] selfClosing` (attributes on an end tag are a parse error
                        and are never used)
      comment token   → `.comment data`
      character token → `.chars [c]`, ONE token per character
      parse error     → `.parseError <standard's code> []`
      end-of-file     → not a `TTok`; it sets `done`.
-/
import H5.Basic
import H5.Gen.Entities
namespace H5.Spec.Tokenizer
open H5

/-! ## States (13.2.5.1 – 13.2.5.80), in the order of the standard -/

inductive State where
  | data | RCDATA | RAWTEXT | scriptData | PLAINTEXT
  | tagOpen | endTagOpen | tagName
  | RCDATALessThanSign | RCDATAEndTagOpen | RCDATAEndTagName
  | RAWTEXTLessThanSign | RAWTEXTEndTagOpen | RAWTEXTEndTagName
  | scriptDataLessThanSign | scriptDataEndTagOpen | scriptDataEndTagName
  | scriptDataEscapeStart | scriptDataEscapeStartDash
  | scriptDataEscaped | scriptDataEscapedDash | scriptDataEscapedDashDash
  | scriptDataEscapedLessThanSign | scriptDataEscapedEndTagOpen | scriptDataEscapedEndTagName
  | scriptDataDoubleEscapeStart
  | scriptDataDoubleEscaped | scriptDataDoubleEscapedDash | scriptDataDoubleEscapedDashDash
  | scriptDataDoubleEscapedLessThanSign | scriptDataDoubleEscapeEnd
  | beforeAttributeName | attributeName | afterAttributeName | beforeAttributeValue
  | attributeValueDoubleQuoted | attributeValueSingleQuoted | attributeValueUnquoted
  | afterAttributeValueQuoted | selfClosingStartTag
  | bogusComment | markupDeclarationOpen
  | commentStart | commentStartDash | comment
  | commentLessThanSign | commentLessThanSignBang | commentLessThanSignBangDash
  | commentLessThanSignBangDashDash
  | commentEndDash | commentEnd | commentEndBang
  | DOCTYPE | beforeDOCTYPEName | DOCTYPEName | afterDOCTYPEName
  | afterDOCTYPEPublicKeyword | beforeDOCTYPEPublicIdentifier
  | DOCTYPEPublicIdentifierDoubleQuoted | DOCTYPEPublicIdentifierSingleQuoted
  | afterDOCTYPEPublicIdentifier | betweenDOCTYPEPublicAndSystemIdentifiers
  | afterDOCTYPESystemKeyword | beforeDOCTYPESystemIdentifier
  | DOCTYPESystemIdentifierDoubleQuoted | DOCTYPESystemIdentifierSingleQuoted
  | afterDOCTYPESystemIdentifier | bogusDOCTYPE
  | CDATASection | CDATASectionBracket | CDATASectionEnd
  | characterReference | namedCharacterReference | ambiguousAmpersand
  | numericCharacterReference
  | hexadecimalCharacterReferenceStart | decimalCharacterReferenceStart
  | hexadecimalCharacterReference | decimalCharacterReference
  | numericCharacterReferenceEnd
  deriving Repr, DecidableEq, BEq

/-! ## Code-point classes (Infra standard) -/

/-- U+0009 TAB, U+000A LF, U+000C FF, U+0020 SPACE: the four characters every tokenizer state
lists as "whitespace" (CR cannot occur: newlines are normalised before tokenization). -/
def isWhitespace (c : Nat) : Bool := c == 0x09 || c == 0x0A || c == 0x0C || c == 0x20
def isASCIIUpperAlpha (c : Nat) : Bool := 0x41 ≤ c && c ≤ 0x5A
def isASCIILowerAlpha (c : Nat) : Bool := 0x61 ≤ c && c ≤ 0x7A
def isASCIIAlpha (c : Nat) : Bool := isASCIIUpperAlpha c || isASCIILowerAlpha c
def isASCIIDigit (c : Nat) : Bool := 0x30 ≤ c && c ≤ 0x39
def isASCIIAlphanumeric (c : Nat) : Bool := isASCIIDigit c || isASCIIAlpha c
def isASCIIUpperHexDigit (c : Nat) : Bool := isASCIIDigit c || (0x41 ≤ c && c ≤ 0x46)
def isASCIILowerHexDigit (c : Nat) : Bool := isASCIIDigit c || (0x61 ≤ c && c ≤ 0x66)
def isASCIIHexDigit (c : Nat) : Bool := isASCIIUpperHexDigit c || isASCIILowerHexDigit c

/-- "the lowercase version of the current input character (add 0x0020 to the character's code
point)" — only ever applied to ASCII upper alpha; identity elsewhere. -/
def toLower (c : Nat) : Nat := if isASCIIUpperAlpha c then c + 0x20 else c

/-- ASCII lowercase of a string (for "ASCII case-insensitive match"). -/
def asciiLowercase (s : Str) : Str := s.map toLower

/-- A surrogate is a code point in the range U+D800 to U+DFFF, inclusive. -/
def isSurrogate (n : Nat) : Bool := 0xD800 ≤ n && n ≤ 0xDFFF

/-- A noncharacter is a code point in the range U+FDD0 to U+FDEF, inclusive, or U+FFFE, U+FFFF,
U+1FFFE, U+1FFFF, …, U+10FFFE, U+10FFFF. -/
def isNoncharacter (n : Nat) : Bool :=
  (0xFDD0 ≤ n && n ≤ 0xFDEF) || (n ≤ 0x10FFFF && (n % 0x10000 == 0xFFFE || n % 0x10000 == 0xFFFF))

/-- A C0 control is U+0000 … U+001F; a control is a C0 control or U+007F … U+009F. -/
def isControl (n : Nat) : Bool := n ≤ 0x1F || (0x7F ≤ n && n ≤ 0x9F)

/-- ASCII whitespace is U+0009 TAB, U+000A LF, U+000C FF, U+000D CR, or U+0020 SPACE. -/
def isASCIIWhitespace (n : Nat) : Bool :=
  n == 0x09 || n == 0x0A || n == 0x0C || n == 0x0D || n == 0x20

/-! ## Tokens under construction -/

/-- An attribute of the current tag token.  `removed` = it was a duplicate when the tokenizer
left the attribute name state: "the new attribute must be removed from the token … Removing the
attribute in this way does not change its status as the 'current attribute' for the purposes of
the tokenizer". -/
structure Attribute where
  name : Str
  value : Str
  removed : Bool := false
  deriving Repr, BEq

/-- Start and end tag tokens "have a tag name, a self-closing flag, and a list of attributes".
The *current attribute* is the last element of `attributes`. -/
structure TagToken where
  isEnd : Bool := false
  name : Str := []
  selfClosing : Bool := false
  attributes : List Attribute := []
  deriving Repr, BEq

/-- "DOCTYPE tokens have a name, a public identifier, a system identifier, and a force-quirks
flag.  When a DOCTYPE token is created, its name, public identifier, and system identifier must
be marked as missing (which is a distinct state from the empty string), and the force-quirks flag
must be set to off." -/
structure DoctypeToken where
  name : Option Str := none
  publicId : Option Str := none
  systemId : Option Str := none
  forceQuirks : Bool := false
  deriving Repr, BEq

/-- The tokenizer's state variables. -/
structure M where
  state : State
  returnState : State := .data
  temporaryBuffer : Str := []
  /-- tag name of "the last start tag to have been emitted from this tokenizer, if any" -/
  lastStartTagName : Option Str := none
  tag : TagToken := {}
  comment : Str := []
  doctype : DoctypeToken := {}
  characterReferenceCode : Nat := 0
  /-- "there is an adjusted current node and it is not an element in the HTML namespace" -/
  cdataAllowed : Bool := false
  /-- tokens emitted so far, most recent first -/
  out : List TTok := []
  /-- an end-of-file token has been emitted -/
  done : Bool := false
  deriving Repr

def modifyLast (f : α → α) : List α → List α
  | [] => []
  | [a] => [f a]
  | a :: b :: rest => a :: modifyLast f (b :: rest)

namespace M

def emit (m : M) (t : TTok) : M := { m with out := t :: m.out }
/-- "This is an X parse error." -/
def err (m : M) (code : String) : M := m.emit (.parseError (lit code) [])
/-- "Emit … as a character token." -/
def emitChar (m : M) (c : Nat) : M := m.emit (.chars [c])
def emitChars (m : M) (cs : Str) : M := cs.foldl emitChar m
/-- "Switch to the … state." -/
def switchTo (m : M) (s : State) : M := { m with state := s }
/-- "Emit an end-of-file token." -/
def emitEOF (m : M) : M := { m with done := true }

/-- "Create a new start tag token, set its tag name to the empty string." -/
def newStartTag (m : M) : M := { m with tag := { isEnd := false } }
/-- "Create a new end tag token, set its tag name to the empty string." -/
def newEndTag (m : M) : M := { m with tag := { isEnd := true } }
def appendTagName (m : M) (c : Nat) : M := { m with tag := { m.tag with name := m.tag.name ++ [c] } }

/-- "Start a new attribute in the current tag token. Set that attribute's name to `n`, and its
value to the empty string." -/
def startAttribute (m : M) (n : Str) : M :=
  { m with tag := { m.tag with attributes := m.tag.attributes ++ [{ name := n, value := [] }] } }
def appendAttrName (m : M) (c : Nat) : M :=
  let attrs := modifyLast (fun a => { a with name := a.name ++ [c] }) m.tag.attributes
  { m with tag := { m.tag with attributes := attrs } }
def appendAttrValue (m : M) (cs : Str) : M :=
  let attrs := modifyLast (fun a => { a with value := a.value ++ cs }) m.tag.attributes
  { m with tag := { m.tag with attributes := attrs } }

/-- "When the user agent leaves the attribute name state (and before emitting the tag token, if
appropriate), the complete attribute's name must be compared to the other attributes on the same
token; if there is already an attribute on the token with the exact same name, then this is a
duplicate-attribute parse error and the new attribute must be removed from the token." -/
def leaveAttributeName (m : M) : M :=
  match m.tag.attributes.getLast? with
  | none => m
  | some cur =>
    let others := m.tag.attributes.dropLast
    if others.any (fun a => !a.removed && a.name == cur.name) then
      let attrs := modifyLast (fun a => { a with removed := true }) m.tag.attributes
      { m.err "duplicate-attribute" with tag := { m.tag with attributes := attrs } }
    else m

/-- "Emit the current tag token."  "When a start tag token is emitted …" / "When an end tag token
is emitted with attributes, that is an end-tag-with-attributes parse error." / "When an end tag
token is emitted with its self-closing flag set, that is an end-tag-with-trailing-solidus parse
error." -/
def emitTag (m : M) : M :=
  let t := m.tag
  if t.isEnd then
    let m := if t.attributes.isEmpty then m else m.err "end-tag-with-attributes"
    let m := if t.selfClosing then m.err "end-tag-with-trailing-solidus" else m
    m.emit (.endTag t.name [] t.selfClosing)
  else
    let attrs := (t.attributes.filter (fun a => !a.removed)).map fun a => (a.name, a.value)
    { m.emit (.startTag t.name attrs t.selfClosing) with lastStartTagName := some t.name }

/-- "An appropriate end tag token is an end tag token whose tag name matches the tag name of the
last start tag to have been emitted from this tokenizer, if any.  If no start tag has been
emitted from this tokenizer, then no end tag token is appropriate." -/
def isAppropriateEndTag (m : M) : Bool :=
  m.tag.isEnd && m.lastStartTagName == some m.tag.name

/-- "Create a comment token whose data is …" -/
def newComment (m : M) (data : Str) : M := { m with comment := data }
def appendComment (m : M) (cs : Str) : M := { m with comment := m.comment ++ cs }
/-- "Emit the comment token." -/
def emitComment (m : M) : M := m.emit (.comment m.comment)

/-- "Create a new DOCTYPE token." -/
def newDoctype (m : M) : M := { m with doctype := {} }
def setForceQuirks (m : M) : M := { m with doctype := { m.doctype with forceQuirks := true } }
def setDoctypeName (m : M) (c : Nat) : M := { m with doctype := { m.doctype with name := some [c] } }
def appendDoctypeName (m : M) (c : Nat) : M :=
  { m with doctype := { m.doctype with name := some (m.doctype.name.getD [] ++ [c]) } }
/-- "Set the DOCTYPE token's public identifier to the empty string (not missing)" -/
def setPublicIdEmpty (m : M) : M := { m with doctype := { m.doctype with publicId := some [] } }
def appendPublicId (m : M) (c : Nat) : M :=
  { m with doctype := { m.doctype with publicId := some (m.doctype.publicId.getD [] ++ [c]) } }
def setSystemIdEmpty (m : M) : M := { m with doctype := { m.doctype with systemId := some [] } }
def appendSystemId (m : M) (c : Nat) : M :=
  { m with doctype := { m.doctype with systemId := some (m.doctype.systemId.getD [] ++ [c]) } }
/-- "Emit the current DOCTYPE token." -/
def emitDoctype (m : M) : M :=
  let d := m.doctype
  m.emit (.doctype d.name d.publicId d.systemId (!d.forceQuirks))

/-- "a character reference is said to be consumed as part of an attribute if the return state is
either attribute value (double-quoted) state, attribute value (single-quoted) state or attribute
value (unquoted) state." -/
def consumedAsPartOfAnAttribute (m : M) : Bool :=
  m.returnState == .attributeValueDoubleQuoted || m.returnState == .attributeValueSingleQuoted
    || m.returnState == .attributeValueUnquoted

/-- "When a state says to flush code points consumed as a character reference, it means that for
each code point in the temporary buffer (in the order they were added to the buffer) user agent
must append the code point from the buffer to the current attribute's value if the character
reference was consumed as part of an attribute, or emit the code point as a character token
otherwise." -/
def flushCodePoints (m : M) : M :=
  if m.consumedAsPartOfAnAttribute then m.appendAttrValue m.temporaryBuffer
  else m.emitChars m.temporaryBuffer

end M

def REPLACEMENT : Nat := 0xFFFD

/-! ## 13.2.5.1 Data state … 13.2.5.8 Tag name state -/

/-- 13.2.5.1 Data state -/
def dataState (m : M) (input : Str) : M × Str :=
  match input with
  | [] => (m.emitEOF, [])                                    -- EOF: Emit an end-of-file token.
  | c :: rest =>
    if c == 0x26 then      -- U+0026 (&): Set the return state to the data state. Switch to the character reference state.
      ({ m with returnState := .data }.switchTo .characterReference, rest)
    else if c == 0x3C then -- U+003C (<): Switch to the tag open state.
      (m.switchTo .tagOpen, rest)
    else if c == 0 then    -- U+0000: unexpected-null-character parse error. Emit the current input character as a character token.
      ((m.err "unexpected-null-character").emitChar c, rest)
    else                   -- Anything else: Emit the current input character as a character token.
      (m.emitChar c, rest)

/-- 13.2.5.2 RCDATA state -/
def RCDATAState (m : M) (input : Str) : M × Str :=
  match input with
  | [] => (m.emitEOF, [])
  | c :: rest =>
    if c == 0x26 then      -- &: Set the return state to the RCDATA state. Switch to the character reference state.
      ({ m with returnState := .RCDATA }.switchTo .characterReference, rest)
    else if c == 0x3C then -- <: Switch to the RCDATA less-than sign state.
      (m.switchTo .RCDATALessThanSign, rest)
    else if c == 0 then    -- NULL: unexpected-null-character parse error. Emit a U+FFFD REPLACEMENT CHARACTER character token.
      ((m.err "unexpected-null-character").emitChar REPLACEMENT, rest)
    else (m.emitChar c, rest)

/-- 13.2.5.3 RAWTEXT state -/
def RAWTEXTState (m : M) (input : Str) : M × Str :=
  match input with
  | [] => (m.emitEOF, [])
  | c :: rest =>
    if c == 0x3C then      -- <: Switch to the RAWTEXT less-than sign state.
      (m.switchTo .RAWTEXTLessThanSign, rest)
    else if c == 0 then
      ((m.err "unexpected-null-character").emitChar REPLACEMENT, rest)
    else (m.emitChar c, rest)

/-- 13.2.5.4 Script data state -/
def scriptDataState (m : M) (input : Str) : M × Str :=
  match input with
  | [] => (m.emitEOF, [])
  | c :: rest =>
    if c == 0x3C then      -- <: Switch to the script data less-than sign state.
      (m.switchTo .scriptDataLessThanSign, rest)
    else if c == 0 then
      ((m.err "unexpected-null-character").emitChar REPLACEMENT, rest)
    else (m.emitChar c, rest)

/-- 13.2.5.5 PLAINTEXT state -/
def PLAINTEXTState (m : M) (input : Str) : M × Str :=
  match input with
  | [] => (m.emitEOF, [])
  | c :: rest =>
    if c == 0 then ((m.err "unexpected-null-character").emitChar REPLACEMENT, rest)
    else (m.emitChar c, rest)

/-- 13.2.5.6 Tag open state -/
def tagOpenState (m : M) (input : Str) : M × Str :=
  match input with
  | [] => -- EOF: eof-before-tag-name parse error. Emit a U+003C LESS-THAN SIGN character token and an end-of-file token.
    (((m.err "eof-before-tag-name").emitChar 0x3C).emitEOF, [])
  | c :: rest =>
    if c == 0x21 then      -- !: Switch to the markup declaration open state.
      (m.switchTo .markupDeclarationOpen, rest)
    else if c == 0x2F then -- /: Switch to the end tag open state.
      (m.switchTo .endTagOpen, rest)
    else if isASCIIAlpha c then -- Create a new start tag token, set its tag name to the empty string. Reconsume in the tag name state.
      (m.newStartTag.switchTo .tagName, input)
    else if c == 0x3F then -- ?: unexpected-question-mark-instead-of-tag-name parse error. Create a comment token whose data is the empty string. Reconsume in the bogus comment state.
      (((m.err "unexpected-question-mark-instead-of-tag-name").newComment []).switchTo .bogusComment, input)
    else -- invalid-first-character-of-tag-name parse error. Emit a U+003C LESS-THAN SIGN character token. Reconsume in the data state.
      (((m.err "invalid-first-character-of-tag-name").emitChar 0x3C).switchTo .data, input)

/-- 13.2.5.7 End tag open state -/
def endTagOpenState (m : M) (input : Str) : M × Str :=
  match input with
  | [] => -- EOF: eof-before-tag-name parse error. Emit a U+003C character token, a U+002F character token and an end-of-file token.
    ((((m.err "eof-before-tag-name").emitChar 0x3C).emitChar 0x2F).emitEOF, [])
  | c :: rest =>
    if isASCIIAlpha c then -- Create a new end tag token, set its tag name to the empty string. Reconsume in the tag name state.
      (m.newEndTag.switchTo .tagName, input)
    else if c == 0x3E then -- >: missing-end-tag-name parse error. Switch to the data state.
      ((m.err "missing-end-tag-name").switchTo .data, rest)
    else -- invalid-first-character-of-tag-name parse error. Create a comment token whose data is the empty string. Reconsume in the bogus comment state.
      (((m.err "invalid-first-character-of-tag-name").newComment []).switchTo .bogusComment, input)

/-- 13.2.5.8 Tag name state -/
def tagNameState (m : M) (input : Str) : M × Str :=
  match input with
  | [] => ((m.err "eof-in-tag").emitEOF, [])                  -- EOF: eof-in-tag parse error. Emit an end-of-file token.
  | c :: rest =>
    if isWhitespace c then (m.switchTo .beforeAttributeName, rest)
    else if c == 0x2F then (m.switchTo .selfClosingStartTag, rest)
    else if c == 0x3E then ((m.switchTo .data).emitTag, rest)  -- >: Switch to the data state. Emit the current tag token.
    else if isASCIIUpperAlpha c then (m.appendTagName (toLower c), rest)
    else if c == 0 then ((m.err "unexpected-null-character").appendTagName REPLACEMENT, rest)
    else (m.appendTagName c, rest)

/-! ## 13.2.5.9 – 13.2.5.17: RCDATA / RAWTEXT / script data "less-than sign", "end tag open",
"end tag name" states.  The three "end tag name" sections (and 13.2.5.25) have the same text up
to the state that is returned to; `endTagNameGeneric` is that text. -/

/-- text shared by 13.2.5.11 / .14 / .17 / .25 (`back` = the state reconsumed in by "anything else") -/
def endTagNameGeneric (back : State) (m : M) (input : Str) : M × Str :=
  -- Anything else: Emit a U+003C LESS-THAN SIGN character token, a U+002F SOLIDUS character token, and a
  -- character token for each of the characters in the temporary buffer (in the order they were added
  -- to the buffer). Reconsume in the `back` state.
  let anythingElse : M × Str :=
    ((((m.emitChar 0x3C).emitChar 0x2F).emitChars m.temporaryBuffer).switchTo back, input)
  match input with
  | [] => anythingElse
  | c :: rest =>
    if isWhitespace c then
      -- If the current end tag token is an appropriate end tag token, then switch to the before attribute
      -- name state. Otherwise, treat it as per the "anything else" entry below.
      if m.isAppropriateEndTag then (m.switchTo .beforeAttributeName, rest) else anythingElse
    else if c == 0x2F then
      if m.isAppropriateEndTag then (m.switchTo .selfClosingStartTag, rest) else anythingElse
    else if c == 0x3E then
      -- … then switch to the data state and emit the current tag token.
      if m.isAppropriateEndTag then ((m.switchTo .data).emitTag, rest) else anythingElse
    else if isASCIIUpperAlpha c then
      -- Append the lowercase version of the current input character to the current tag token's tag name.
      -- Append the current input character to the temporary buffer.
      ({ m.appendTagName (toLower c) with temporaryBuffer := m.temporaryBuffer ++ [c] }, rest)
    else if isASCIILowerAlpha c then
      ({ m.appendTagName c with temporaryBuffer := m.temporaryBuffer ++ [c] }, rest)
    else anythingElse

/-- text shared by the "less-than sign" states 13.2.5.9 / .12 -/
def lessThanSignGeneric (back endTagOpenSt : State) (m : M) (input : Str) : M × Str :=
  match input with
  | c :: rest =>
    if c == 0x2F then -- /: Set the temporary buffer to the empty string. Switch to the … end tag open state.
      ({ m with temporaryBuffer := [] }.switchTo endTagOpenSt, rest)
    else ((m.emitChar 0x3C).switchTo back, input) -- Emit a U+003C character token. Reconsume in the … state.
  | [] => ((m.emitChar 0x3C).switchTo back, input)

/-- text shared by the "end tag open" states 13.2.5.10 / .13 / .16 / .24 -/
def endTagOpenGeneric (back endTagName : State) (m : M) (input : Str) : M × Str :=
  match input with
  | c :: _ =>
    if isASCIIAlpha c then -- Create a new end tag token, set its tag name to the empty string. Reconsume in the … end tag name state.
      (m.newEndTag.switchTo endTagName, input)
    else (((m.emitChar 0x3C).emitChar 0x2F).switchTo back, input)
  | [] => (((m.emitChar 0x3C).emitChar 0x2F).switchTo back, input)

/-- 13.2.5.9 RCDATA less-than sign state -/
def RCDATALessThanSignState := lessThanSignGeneric .RCDATA .RCDATAEndTagOpen
/-- 13.2.5.10 RCDATA end tag open state -/
def RCDATAEndTagOpenState := endTagOpenGeneric .RCDATA .RCDATAEndTagName
/-- 13.2.5.11 RCDATA end tag name state -/
def RCDATAEndTagNameState := endTagNameGeneric .RCDATA
/-- 13.2.5.12 RAWTEXT less-than sign state -/
def RAWTEXTLessThanSignState := lessThanSignGeneric .RAWTEXT .RAWTEXTEndTagOpen
/-- 13.2.5.13 RAWTEXT end tag open state -/
def RAWTEXTEndTagOpenState := endTagOpenGeneric .RAWTEXT .RAWTEXTEndTagName
/-- 13.2.5.14 RAWTEXT end tag name state -/
def RAWTEXTEndTagNameState := endTagNameGeneric .RAWTEXT

/-- 13.2.5.15 Script data less-than sign state -/
def scriptDataLessThanSignState (m : M) (input : Str) : M × Str :=
  match input with
  | c :: rest =>
    if c == 0x2F then -- /: Set the temporary buffer to the empty string. Switch to the script data end tag open state.
      ({ m with temporaryBuffer := [] }.switchTo .scriptDataEndTagOpen, rest)
    else if c == 0x21 then -- !: Switch to the script data escape start state. Emit a U+003C character token and a U+0021 character token.
      (((m.switchTo .scriptDataEscapeStart).emitChar 0x3C).emitChar 0x21, rest)
    else ((m.emitChar 0x3C).switchTo .scriptData, input)
  | [] => ((m.emitChar 0x3C).switchTo .scriptData, input)

/-- 13.2.5.16 Script data end tag open state -/
def scriptDataEndTagOpenState := endTagOpenGeneric .scriptData .scriptDataEndTagName
/-- 13.2.5.17 Script data end tag name state -/
def scriptDataEndTagNameState := endTagNameGeneric .scriptData

/-! ## 13.2.5.18 – 13.2.5.31: script data escape states -/

/-- 13.2.5.18 Script data escape start state -/
def scriptDataEscapeStartState (m : M) (input : Str) : M × Str :=
  match input with
  | c :: rest =>
    if c == 0x2D then -- -: Switch to the script data escape start dash state. Emit a U+002D HYPHEN-MINUS character token.
      ((m.switchTo .scriptDataEscapeStartDash).emitChar 0x2D, rest)
    else (m.switchTo .scriptData, input)  -- Anything else: Reconsume in the script data state.
  | [] => (m.switchTo .scriptData, input)

/-- 13.2.5.19 Script data escape start dash state -/
def scriptDataEscapeStartDashState (m : M) (input : Str) : M × Str :=
  match input with
  | c :: rest =>
    if c == 0x2D then -- -: Switch to the script data escaped dash dash state. Emit a U+002D character token.
      ((m.switchTo .scriptDataEscapedDashDash).emitChar 0x2D, rest)
    else (m.switchTo .scriptData, input)
  | [] => (m.switchTo .scriptData, input)

/-- 13.2.5.20 Script data escaped state -/
def scriptDataEscapedState (m : M) (input : Str) : M × Str :=
  match input with
  | [] => ((m.err "eof-in-script-html-comment-like-text").emitEOF, [])
  | c :: rest =>
    if c == 0x2D then ((m.switchTo .scriptDataEscapedDash).emitChar 0x2D, rest)
    else if c == 0x3C then (m.switchTo .scriptDataEscapedLessThanSign, rest)
    else if c == 0 then ((m.err "unexpected-null-character").emitChar REPLACEMENT, rest)
    else (m.emitChar c, rest)

/-- 13.2.5.21 Script data escaped dash state -/
def scriptDataEscapedDashState (m : M) (input : Str) : M × Str :=
  match input with
  | [] => ((m.err "eof-in-script-html-comment-like-text").emitEOF, [])
  | c :: rest =>
    if c == 0x2D then ((m.switchTo .scriptDataEscapedDashDash).emitChar 0x2D, rest)
    else if c == 0x3C then (m.switchTo .scriptDataEscapedLessThanSign, rest)
    else if c == 0 then -- unexpected-null-character parse error. Switch to the script data escaped state. Emit a U+FFFD character token.
      (((m.err "unexpected-null-character").switchTo .scriptDataEscaped).emitChar REPLACEMENT, rest)
    else ((m.switchTo .scriptDataEscaped).emitChar c, rest)

/-- 13.2.5.22 Script data escaped dash dash state -/
def scriptDataEscapedDashDashState (m : M) (input : Str) : M × Str :=
  match input with
  | [] => ((m.err "eof-in-script-html-comment-like-text").emitEOF, [])
  | c :: rest =>
    if c == 0x2D then (m.emitChar 0x2D, rest)                 -- -: Emit a U+002D HYPHEN-MINUS character token.
    else if c == 0x3C then (m.switchTo .scriptDataEscapedLessThanSign, rest)
    else if c == 0x3E then ((m.switchTo .scriptData).emitChar 0x3E, rest) -- >: Switch to the script data state. Emit a U+003E character token.
    else if c == 0 then
      (((m.err "unexpected-null-character").switchTo .scriptDataEscaped).emitChar REPLACEMENT, rest)
    else ((m.switchTo .scriptDataEscaped).emitChar c, rest)

/-- 13.2.5.23 Script data escaped less-than sign state -/
def scriptDataEscapedLessThanSignState (m : M) (input : Str) : M × Str :=
  match input with
  | c :: rest =>
    if c == 0x2F then -- /: Set the temporary buffer to the empty string. Switch to the script data escaped end tag open state.
      ({ m with temporaryBuffer := [] }.switchTo .scriptDataEscapedEndTagOpen, rest)
    else if isASCIIAlpha c then
      -- Set the temporary buffer to the empty string. Emit a U+003C LESS-THAN SIGN character token.
      -- Reconsume in the script data double escape start state.
      (({ m with temporaryBuffer := [] }.emitChar 0x3C).switchTo .scriptDataDoubleEscapeStart, input)
    else ((m.emitChar 0x3C).switchTo .scriptDataEscaped, input)
  | [] => ((m.emitChar 0x3C).switchTo .scriptDataEscaped, input)

/-- 13.2.5.24 Script data escaped end tag open state -/
def scriptDataEscapedEndTagOpenState := endTagOpenGeneric .scriptDataEscaped .scriptDataEscapedEndTagName
/-- 13.2.5.25 Script data escaped end tag name state -/
def scriptDataEscapedEndTagNameState := endTagNameGeneric .scriptDataEscaped

/-- the string "script" -/
def scriptStr : Str := [0x73, 0x63, 0x72, 0x69, 0x70, 0x74]

/-- 13.2.5.26 Script data double escape start state -/
def scriptDataDoubleEscapeStartState (m : M) (input : Str) : M × Str :=
  match input with
  | c :: rest =>
    if isWhitespace c || c == 0x2F || c == 0x3E then
      -- If the temporary buffer is the string "script", then switch to the script data double escaped
      -- state. Otherwise, switch to the script data escaped state. Emit the current input character as a
      -- character token.
      let m := if m.temporaryBuffer == scriptStr then m.switchTo .scriptDataDoubleEscaped
               else m.switchTo .scriptDataEscaped
      (m.emitChar c, rest)
    else if isASCIIUpperAlpha c then
      -- Append the lowercase version of the current input character to the temporary buffer. Emit the
      -- current input character as a character token.
      ({ m with temporaryBuffer := m.temporaryBuffer ++ [toLower c] }.emitChar c, rest)
    else if isASCIILowerAlpha c then
      ({ m with temporaryBuffer := m.temporaryBuffer ++ [c] }.emitChar c, rest)
    else (m.switchTo .scriptDataEscaped, input)   -- Anything else: Reconsume in the script data escaped state.
  | [] => (m.switchTo .scriptDataEscaped, input)

/-- 13.2.5.27 Script data double escaped state -/
def scriptDataDoubleEscapedState (m : M) (input : Str) : M × Str :=
  match input with
  | [] => ((m.err "eof-in-script-html-comment-like-text").emitEOF, [])
  | c :: rest =>
    if c == 0x2D then ((m.switchTo .scriptDataDoubleEscapedDash).emitChar 0x2D, rest)
    else if c == 0x3C then -- <: Switch to the script data double escaped less-than sign state. Emit a U+003C character token.
      ((m.switchTo .scriptDataDoubleEscapedLessThanSign).emitChar 0x3C, rest)
    else if c == 0 then ((m.err "unexpected-null-character").emitChar REPLACEMENT, rest)
    else (m.emitChar c, rest)

/-- 13.2.5.28 Script data double escaped dash state -/
def scriptDataDoubleEscapedDashState (m : M) (input : Str) : M × Str :=
  match input with
  | [] => ((m.err "eof-in-script-html-comment-like-text").emitEOF, [])
  | c :: rest =>
    if c == 0x2D then ((m.switchTo .scriptDataDoubleEscapedDashDash).emitChar 0x2D, rest)
    else if c == 0x3C then ((m.switchTo .scriptDataDoubleEscapedLessThanSign).emitChar 0x3C, rest)
    else if c == 0 then
      (((m.err "unexpected-null-character").switchTo .scriptDataDoubleEscaped).emitChar REPLACEMENT, rest)
    else ((m.switchTo .scriptDataDoubleEscaped).emitChar c, rest)

/-- 13.2.5.29 Script data double escaped dash dash state -/
def scriptDataDoubleEscapedDashDashState (m : M) (input : Str) : M × Str :=
  match input with
  | [] => ((m.err "eof-in-script-html-comment-like-text").emitEOF, [])
  | c :: rest =>
    if c == 0x2D then (m.emitChar 0x2D, rest)
    else if c == 0x3C then ((m.switchTo .scriptDataDoubleEscapedLessThanSign).emitChar 0x3C, rest)
    else if c == 0x3E then ((m.switchTo .scriptData).emitChar 0x3E, rest)
    else if c == 0 then
      (((m.err "unexpected-null-character").switchTo .scriptDataDoubleEscaped).emitChar REPLACEMENT, rest)
    else ((m.switchTo .scriptDataDoubleEscaped).emitChar c, rest)

/-- 13.2.5.30 Script data double escaped less-than sign state -/
def scriptDataDoubleEscapedLessThanSignState (m : M) (input : Str) : M × Str :=
  match input with
  | c :: rest =>
    if c == 0x2F then
      -- /: Set the temporary buffer to the empty string. Switch to the script data double escape end
      -- state. Emit a U+002F SOLIDUS character token.
      (({ m with temporaryBuffer := [] }.switchTo .scriptDataDoubleEscapeEnd).emitChar 0x2F, rest)
    else (m.switchTo .scriptDataDoubleEscaped, input)
  | [] => (m.switchTo .scriptDataDoubleEscaped, input)

/-- 13.2.5.31 Script data double escape end state -/
def scriptDataDoubleEscapeEndState (m : M) (input : Str) : M × Str :=
  match input with
  | c :: rest =>
    if isWhitespace c || c == 0x2F || c == 0x3E then
      -- If the temporary buffer is the string "script", then switch to the script data escaped state.
      -- Otherwise, switch to the script data double escaped state. Emit the current input character.
      let m := if m.temporaryBuffer == scriptStr then m.switchTo .scriptDataEscaped
               else m.switchTo .scriptDataDoubleEscaped
      (m.emitChar c, rest)
    else if isASCIIUpperAlpha c then
      ({ m with temporaryBuffer := m.temporaryBuffer ++ [toLower c] }.emitChar c, rest)
    else if isASCIILowerAlpha c then
      ({ m with temporaryBuffer := m.temporaryBuffer ++ [c] }.emitChar c, rest)
    else (m.switchTo .scriptDataDoubleEscaped, input)
  | [] => (m.switchTo .scriptDataDoubleEscaped, input)

/-! ## 13.2.5.32 – 13.2.5.40: attributes, self-closing start tag -/

/-- 13.2.5.32 Before attribute name state -/
def beforeAttributeNameState (m : M) (input : Str) : M × Str :=
  match input with
  | [] => (m.switchTo .afterAttributeName, input)  -- /, >, EOF: Reconsume in the after attribute name state.
  | c :: rest =>
    if isWhitespace c then (m, rest)               -- Ignore the character.
    else if c == 0x2F || c == 0x3E then (m.switchTo .afterAttributeName, input)
    else if c == 0x3D then
      -- =: unexpected-equals-sign-before-attribute-name parse error. Start a new attribute in the current
      -- tag token. Set that attribute's name to the current input character, and its value to the empty
      -- string. Switch to the attribute name state.
      (((m.err "unexpected-equals-sign-before-attribute-name").startAttribute [c]).switchTo .attributeName, rest)
    else
      -- Start a new attribute in the current tag token. Set that attribute name and value to the empty
      -- string. Reconsume in the attribute name state.
      ((m.startAttribute []).switchTo .attributeName, input)

/-- 13.2.5.33 Attribute name state -/
def attributeNameState (m : M) (input : Str) : M × Str :=
  match input with
  | [] => (m.leaveAttributeName.switchTo .afterAttributeName, input)
  | c :: rest =>
    if isWhitespace c || c == 0x2F || c == 0x3E then
      -- whitespace, /, >, EOF: Reconsume in the after attribute name state.
      (m.leaveAttributeName.switchTo .afterAttributeName, input)
    else if c == 0x3D then (m.leaveAttributeName.switchTo .beforeAttributeValue, rest)
    else if isASCIIUpperAlpha c then (m.appendAttrName (toLower c), rest)
    else if c == 0 then ((m.err "unexpected-null-character").appendAttrName REPLACEMENT, rest)
    else if c == 0x22 || c == 0x27 || c == 0x3C then
      -- ", ', <: unexpected-character-in-attribute-name parse error. Treat it as per the "anything else" entry below.
      ((m.err "unexpected-character-in-attribute-name").appendAttrName c, rest)
    else (m.appendAttrName c, rest)

/-- 13.2.5.34 After attribute name state -/
def afterAttributeNameState (m : M) (input : Str) : M × Str :=
  match input with
  | [] => ((m.err "eof-in-tag").emitEOF, [])
  | c :: rest =>
    if isWhitespace c then (m, rest)
    else if c == 0x2F then (m.switchTo .selfClosingStartTag, rest)
    else if c == 0x3D then (m.switchTo .beforeAttributeValue, rest)
    else if c == 0x3E then ((m.switchTo .data).emitTag, rest)
    else
      -- Start a new attribute in the current tag token. Set that attribute name and value to the empty
      -- string. Reconsume in the attribute name state.
      ((m.startAttribute []).switchTo .attributeName, input)

/-- 13.2.5.35 Before attribute value state -/
def beforeAttributeValueState (m : M) (input : Str) : M × Str :=
  match input with
  | [] => (m.switchTo .attributeValueUnquoted, input)  -- Anything else: Reconsume in the attribute value (unquoted) state.
  | c :: rest =>
    if isWhitespace c then (m, rest)
    else if c == 0x22 then (m.switchTo .attributeValueDoubleQuoted, rest)
    else if c == 0x27 then (m.switchTo .attributeValueSingleQuoted, rest)
    else if c == 0x3E then -- >: missing-attribute-value parse error. Switch to the data state. Emit the current tag token.
      (((m.err "missing-attribute-value").switchTo .data).emitTag, rest)
    else (m.switchTo .attributeValueUnquoted, input)

/-- text shared by 13.2.5.36 / .37 (`q` = the closing quote, `self` = this state) -/
def attributeValueQuotedGeneric (q : Nat) (self : State) (m : M) (input : Str) : M × Str :=
  match input with
  | [] => ((m.err "eof-in-tag").emitEOF, [])
  | c :: rest =>
    if c == q then (m.switchTo .afterAttributeValueQuoted, rest)
    else if c == 0x26 then -- &: Set the return state to the attribute value (…-quoted) state. Switch to the character reference state.
      ({ m with returnState := self }.switchTo .characterReference, rest)
    else if c == 0 then ((m.err "unexpected-null-character").appendAttrValue [REPLACEMENT], rest)
    else (m.appendAttrValue [c], rest)

/-- 13.2.5.36 Attribute value (double-quoted) state -/
def attributeValueDoubleQuotedState := attributeValueQuotedGeneric 0x22 .attributeValueDoubleQuoted
/-- 13.2.5.37 Attribute value (single-quoted) state -/
def attributeValueSingleQuotedState := attributeValueQuotedGeneric 0x27 .attributeValueSingleQuoted

/-- 13.2.5.38 Attribute value (unquoted) state -/
def attributeValueUnquotedState (m : M) (input : Str) : M × Str :=
  match input with
  | [] => ((m.err "eof-in-tag").emitEOF, [])
  | c :: rest =>
    if isWhitespace c then (m.switchTo .beforeAttributeName, rest)
    else if c == 0x26 then ({ m with returnState := .attributeValueUnquoted }.switchTo .characterReference, rest)
    else if c == 0x3E then ((m.switchTo .data).emitTag, rest)
    else if c == 0 then ((m.err "unexpected-null-character").appendAttrValue [REPLACEMENT], rest)
    else if c == 0x22 || c == 0x27 || c == 0x3C || c == 0x3D || c == 0x60 then
      -- ", ', <, =, `: unexpected-character-in-unquoted-attribute-value parse error. Treat it as per "anything else".
      ((m.err "unexpected-character-in-unquoted-attribute-value").appendAttrValue [c], rest)
    else (m.appendAttrValue [c], rest)

/-- 13.2.5.39 After attribute value (quoted) state -/
def afterAttributeValueQuotedState (m : M) (input : Str) : M × Str :=
  match input with
  | [] => ((m.err "eof-in-tag").emitEOF, [])
  | c :: rest =>
    if isWhitespace c then (m.switchTo .beforeAttributeName, rest)
    else if c == 0x2F then (m.switchTo .selfClosingStartTag, rest)
    else if c == 0x3E then ((m.switchTo .data).emitTag, rest)
    else -- missing-whitespace-between-attributes parse error. Reconsume in the before attribute name state.
      ((m.err "missing-whitespace-between-attributes").switchTo .beforeAttributeName, input)

/-- 13.2.5.40 Self-closing start tag state -/
def selfClosingStartTagState (m : M) (input : Str) : M × Str :=
  match input with
  | [] => ((m.err "eof-in-tag").emitEOF, [])
  | c :: rest =>
    if c == 0x3E then -- >: Set the self-closing flag of the current tag token. Switch to the data state. Emit the current tag token.
      (({ m with tag := { m.tag with selfClosing := true } }.switchTo .data).emitTag, rest)
    else -- unexpected-solidus-in-tag parse error. Reconsume in the before attribute name state.
      ((m.err "unexpected-solidus-in-tag").switchTo .beforeAttributeName, input)

/-! ## 13.2.5.41 – 13.2.5.52: bogus comment, markup declaration open, comments -/

/-- 13.2.5.41 Bogus comment state -/
def bogusCommentState (m : M) (input : Str) : M × Str :=
  match input with
  | [] => (m.emitComment.emitEOF, [])              -- EOF: Emit the comment. Emit an end-of-file token.
  | c :: rest =>
    if c == 0x3E then ((m.switchTo .data).emitComment, rest)
    else if c == 0 then ((m.err "unexpected-null-character").appendComment [REPLACEMENT], rest)
    else (m.appendComment [c], rest)

/-- the string "doctype" (compared ASCII case-insensitively) and the string "[CDATA[" -/
def doctypeStr : Str := [0x64, 0x6F, 0x63, 0x74, 0x79, 0x70, 0x65]
def cdataStr : Str := [0x5B, 0x43, 0x44, 0x41, 0x54, 0x41, 0x5B]

/-- 13.2.5.42 Markup declaration open state — "If the next few characters are:" -/
def markupDeclarationOpenState (m : M) (input : Str) : M × Str :=
  if input.take 2 == [0x2D, 0x2D] then
    -- Two U+002D HYPHEN-MINUS characters (-): Consume those two characters, create a comment token whose
    -- data is the empty string, and switch to the comment start state.
    ((m.newComment []).switchTo .commentStart, input.drop 2)
  else if asciiLowercase (input.take 7) == doctypeStr then
    -- ASCII case-insensitive match for the word "DOCTYPE": Consume those characters and switch to the DOCTYPE state.
    (m.switchTo .DOCTYPE, input.drop 7)
  else if input.take 7 == cdataStr then
    -- The string "[CDATA[" (the five uppercase letters "CDATA" with a U+005B LEFT SQUARE BRACKET character
    -- before and after): Consume those characters. If there is an adjusted current node and it is not an
    -- element in the HTML namespace, then switch to the CDATA section state. Otherwise, this is a
    -- cdata-in-html-content parse error. Create a comment token whose data is the "[CDATA[" string. Switch
    -- to the bogus comment state.
    if m.cdataAllowed then (m.switchTo .CDATASection, input.drop 7)
    else (((m.err "cdata-in-html-content").newComment cdataStr).switchTo .bogusComment, input.drop 7)
  else
    -- Anything else: incorrectly-opened-comment parse error. Create a comment token whose data is the empty
    -- string. Switch to the bogus comment state (don't consume anything in the current state).
    (((m.err "incorrectly-opened-comment").newComment []).switchTo .bogusComment, input)

/-- 13.2.5.43 Comment start state -/
def commentStartState (m : M) (input : Str) : M × Str :=
  match input with
  | c :: rest =>
    if c == 0x2D then (m.switchTo .commentStartDash, rest)
    else if c == 0x3E then -- >: abrupt-closing-of-empty-comment parse error. Switch to the data state. Emit the comment token.
      (((m.err "abrupt-closing-of-empty-comment").switchTo .data).emitComment, rest)
    else (m.switchTo .comment, input)        -- Anything else: Reconsume in the comment state.
  | [] => (m.switchTo .comment, input)

/-- 13.2.5.44 Comment start dash state -/
def commentStartDashState (m : M) (input : Str) : M × Str :=
  match input with
  | [] => (((m.err "eof-in-comment").emitComment).emitEOF, [])
  | c :: rest =>
    if c == 0x2D then (m.switchTo .commentEnd, rest)
    else if c == 0x3E then (((m.err "abrupt-closing-of-empty-comment").switchTo .data).emitComment, rest)
    else -- Append a U+002D HYPHEN-MINUS character (-) to the comment token's data. Reconsume in the comment state.
      ((m.appendComment [0x2D]).switchTo .comment, input)

/-- 13.2.5.45 Comment state -/
def commentState (m : M) (input : Str) : M × Str :=
  match input with
  | [] => (((m.err "eof-in-comment").emitComment).emitEOF, [])
  | c :: rest =>
    if c == 0x3C then -- <: Append the current input character to the comment token's data. Switch to the comment less-than sign state.
      ((m.appendComment [c]).switchTo .commentLessThanSign, rest)
    else if c == 0x2D then (m.switchTo .commentEndDash, rest)
    else if c == 0 then ((m.err "unexpected-null-character").appendComment [REPLACEMENT], rest)
    else (m.appendComment [c], rest)

/-- 13.2.5.46 Comment less-than sign state -/
def commentLessThanSignState (m : M) (input : Str) : M × Str :=
  match input with
  | c :: rest =>
    if c == 0x21 then -- !: Append the current input character to the comment token's data. Switch to the comment less-than sign bang state.
      ((m.appendComment [c]).switchTo .commentLessThanSignBang, rest)
    else if c == 0x3C then (m.appendComment [c], rest)
    else (m.switchTo .comment, input)
  | [] => (m.switchTo .comment, input)

/-- 13.2.5.47 Comment less-than sign bang state -/
def commentLessThanSignBangState (m : M) (input : Str) : M × Str :=
  match input with
  | c :: rest =>
    if c == 0x2D then (m.switchTo .commentLessThanSignBangDash, rest)
    else (m.switchTo .comment, input)
  | [] => (m.switchTo .comment, input)

/-- 13.2.5.48 Comment less-than sign bang dash state -/
def commentLessThanSignBangDashState (m : M) (input : Str) : M × Str :=
  match input with
  | c :: rest =>
    if c == 0x2D then (m.switchTo .commentLessThanSignBangDashDash, rest)
    else (m.switchTo .commentEndDash, input)  -- Anything else: Reconsume in the comment end dash state.
  | [] => (m.switchTo .commentEndDash, input)

/-- 13.2.5.49 Comment less-than sign bang dash dash state -/
def commentLessThanSignBangDashDashState (m : M) (input : Str) : M × Str :=
  match input with
  | [] => (m.switchTo .commentEnd, input)     -- >, EOF: Reconsume in the comment end state.
  | c :: _ =>
    if c == 0x3E then (m.switchTo .commentEnd, input)
    else ((m.err "nested-comment").switchTo .commentEnd, input) -- nested-comment parse error. Reconsume in the comment end state.

/-- 13.2.5.50 Comment end dash state -/
def commentEndDashState (m : M) (input : Str) : M × Str :=
  match input with
  | [] => (((m.err "eof-in-comment").emitComment).emitEOF, [])
  | c :: rest =>
    if c == 0x2D then (m.switchTo .commentEnd, rest)
    else ((m.appendComment [0x2D]).switchTo .comment, input)

/-- 13.2.5.51 Comment end state -/
def commentEndState (m : M) (input : Str) : M × Str :=
  match input with
  | [] => (((m.err "eof-in-comment").emitComment).emitEOF, [])
  | c :: rest =>
    if c == 0x3E then ((m.switchTo .data).emitComment, rest)
    else if c == 0x21 then (m.switchTo .commentEndBang, rest)
    else if c == 0x2D then (m.appendComment [0x2D], rest)     -- -: Append a U+002D character to the comment token's data.
    else -- Append two U+002D HYPHEN-MINUS characters (-) to the comment token's data. Reconsume in the comment state.
      ((m.appendComment [0x2D, 0x2D]).switchTo .comment, input)

/-- 13.2.5.52 Comment end bang state -/
def commentEndBangState (m : M) (input : Str) : M × Str :=
  match input with
  | [] => (((m.err "eof-in-comment").emitComment).emitEOF, [])
  | c :: rest =>
    if c == 0x2D then
      -- -: Append two U+002D characters and a U+0021 EXCLAMATION MARK character (!) to the comment token's
      -- data. Switch to the comment end dash state.
      ((m.appendComment [0x2D, 0x2D, 0x21]).switchTo .commentEndDash, rest)
    else if c == 0x3E then -- >: incorrectly-closed-comment parse error. Switch to the data state. Emit the comment token.
      (((m.err "incorrectly-closed-comment").switchTo .data).emitComment, rest)
    else ((m.appendComment [0x2D, 0x2D, 0x21]).switchTo .comment, input)

/-! ## 13.2.5.53 – 13.2.5.68: DOCTYPE -/

/-- common EOF entry of the DOCTYPE states that already have a token: "eof-in-doctype parse error.
Set the DOCTYPE token's force-quirks flag to on. Emit that DOCTYPE token. Emit an end-of-file token." -/
def doctypeEOF (m : M) : M × Str := ((((m.err "eof-in-doctype").setForceQuirks).emitDoctype).emitEOF, [])

/-- 13.2.5.53 DOCTYPE state -/
def DOCTYPEState (m : M) (input : Str) : M × Str :=
  match input with
  | [] => -- EOF: eof-in-doctype parse error. Create a new DOCTYPE token. Set its force-quirks flag to on. Emit the token. Emit an end-of-file token.
    doctypeEOF m.newDoctype
  | c :: rest =>
    if isWhitespace c then (m.switchTo .beforeDOCTYPEName, rest)
    else if c == 0x3E then (m.switchTo .beforeDOCTYPEName, input)   -- >: Reconsume in the before DOCTYPE name state.
    else ((m.err "missing-whitespace-before-doctype-name").switchTo .beforeDOCTYPEName, input)

/-- 13.2.5.54 Before DOCTYPE name state -/
def beforeDOCTYPENameState (m : M) (input : Str) : M × Str :=
  match input with
  | [] => doctypeEOF m.newDoctype
  | c :: rest =>
    if isWhitespace c then (m, rest)
    else if isASCIIUpperAlpha c then
      -- Create a new DOCTYPE token. Set the token's name to the lowercase version of the current input
      -- character. Switch to the DOCTYPE name state.
      ((m.newDoctype.setDoctypeName (toLower c)).switchTo .DOCTYPEName, rest)
    else if c == 0 then
      (((m.err "unexpected-null-character").newDoctype.setDoctypeName REPLACEMENT).switchTo .DOCTYPEName, rest)
    else if c == 0x3E then
      -- >: missing-doctype-name parse error. Create a new DOCTYPE token. Set its force-quirks flag to on.
      -- Switch to the data state. Emit the token.
      ((((m.err "missing-doctype-name").newDoctype.setForceQuirks).switchTo .data).emitDoctype, rest)
    else ((m.newDoctype.setDoctypeName c).switchTo .DOCTYPEName, rest)

/-- 13.2.5.55 DOCTYPE name state -/
def DOCTYPENameState (m : M) (input : Str) : M × Str :=
  match input with
  | [] => doctypeEOF m
  | c :: rest =>
    if isWhitespace c then (m.switchTo .afterDOCTYPEName, rest)
    else if c == 0x3E then ((m.switchTo .data).emitDoctype, rest)
    else if isASCIIUpperAlpha c then (m.appendDoctypeName (toLower c), rest)
    else if c == 0 then ((m.err "unexpected-null-character").appendDoctypeName REPLACEMENT, rest)
    else (m.appendDoctypeName c, rest)

def publicStr : Str := [0x70, 0x75, 0x62, 0x6C, 0x69, 0x63]
def systemStr : Str := [0x73, 0x79, 0x73, 0x74, 0x65, 0x6D]

/-- 13.2.5.56 After DOCTYPE name state -/
def afterDOCTYPENameState (m : M) (input : Str) : M × Str :=
  match input with
  | [] => doctypeEOF m
  | c :: rest =>
    if isWhitespace c then (m, rest)
    else if c == 0x3E then ((m.switchTo .data).emitDoctype, rest)
    else
      -- If the six characters starting from the current input character are an ASCII case-insensitive
      -- match for the word "PUBLIC", then consume those characters and switch to the after DOCTYPE public
      -- keyword state.  Otherwise, if … "SYSTEM" … after DOCTYPE system keyword state.  Otherwise, this is
      -- an invalid-character-sequence-after-doctype-name parse error. Set the DOCTYPE token's force-quirks
      -- flag to on. Reconsume in the bogus DOCTYPE state.
      if asciiLowercase (input.take 6) == publicStr then (m.switchTo .afterDOCTYPEPublicKeyword, input.drop 6)
      else if asciiLowercase (input.take 6) == systemStr then (m.switchTo .afterDOCTYPESystemKeyword, input.drop 6)
      else (((m.err "invalid-character-sequence-after-doctype-name").setForceQuirks).switchTo .bogusDOCTYPE, input)

/-- "… parse error. Set the DOCTYPE token's force-quirks flag to on. Switch to the data state. Emit
that DOCTYPE token." (the `>` entry of several states) -/
def doctypeAbrupt (m : M) (code : String) (rest : Str) : M × Str :=
  ((((m.err code).setForceQuirks).switchTo .data).emitDoctype, rest)

/-- "… parse error. Set the DOCTYPE token's force-quirks flag to on. Reconsume in the bogus DOCTYPE state." -/
def doctypeBogus (m : M) (code : String) (input : Str) : M × Str :=
  (((m.err code).setForceQuirks).switchTo .bogusDOCTYPE, input)

/-- 13.2.5.57 After DOCTYPE public keyword state -/
def afterDOCTYPEPublicKeywordState (m : M) (input : Str) : M × Str :=
  match input with
  | [] => doctypeEOF m
  | c :: rest =>
    if isWhitespace c then (m.switchTo .beforeDOCTYPEPublicIdentifier, rest)
    else if c == 0x22 then
      -- ": missing-whitespace-after-doctype-public-keyword parse error. Set the DOCTYPE token's public
      -- identifier to the empty string (not missing), then switch to the DOCTYPE public identifier
      -- (double-quoted) state.
      (((m.err "missing-whitespace-after-doctype-public-keyword").setPublicIdEmpty).switchTo .DOCTYPEPublicIdentifierDoubleQuoted, rest)
    else if c == 0x27 then
      (((m.err "missing-whitespace-after-doctype-public-keyword").setPublicIdEmpty).switchTo .DOCTYPEPublicIdentifierSingleQuoted, rest)
    else if c == 0x3E then doctypeAbrupt m "missing-doctype-public-identifier" rest
    else doctypeBogus m "missing-quote-before-doctype-public-identifier" input

/-- 13.2.5.58 Before DOCTYPE public identifier state -/
def beforeDOCTYPEPublicIdentifierState (m : M) (input : Str) : M × Str :=
  match input with
  | [] => doctypeEOF m
  | c :: rest =>
    if isWhitespace c then (m, rest)
    else if c == 0x22 then (m.setPublicIdEmpty.switchTo .DOCTYPEPublicIdentifierDoubleQuoted, rest)
    else if c == 0x27 then (m.setPublicIdEmpty.switchTo .DOCTYPEPublicIdentifierSingleQuoted, rest)
    else if c == 0x3E then doctypeAbrupt m "missing-doctype-public-identifier" rest
    else doctypeBogus m "missing-quote-before-doctype-public-identifier" input

/-- text shared by 13.2.5.59 / .60 -/
def DOCTYPEPublicIdentifierQuotedGeneric (q : Nat) (m : M) (input : Str) : M × Str :=
  match input with
  | [] => doctypeEOF m
  | c :: rest =>
    if c == q then (m.switchTo .afterDOCTYPEPublicIdentifier, rest)
    else if c == 0 then ((m.err "unexpected-null-character").appendPublicId REPLACEMENT, rest)
    else if c == 0x3E then doctypeAbrupt m "abrupt-doctype-public-identifier" rest
    else (m.appendPublicId c, rest)

/-- 13.2.5.59 DOCTYPE public identifier (double-quoted) state -/
def DOCTYPEPublicIdentifierDoubleQuotedState := DOCTYPEPublicIdentifierQuotedGeneric 0x22
/-- 13.2.5.60 DOCTYPE public identifier (single-quoted) state -/
def DOCTYPEPublicIdentifierSingleQuotedState := DOCTYPEPublicIdentifierQuotedGeneric 0x27

/-- 13.2.5.61 After DOCTYPE public identifier state -/
def afterDOCTYPEPublicIdentifierState (m : M) (input : Str) : M × Str :=
  match input with
  | [] => doctypeEOF m
  | c :: rest =>
    if isWhitespace c then (m.switchTo .betweenDOCTYPEPublicAndSystemIdentifiers, rest)
    else if c == 0x3E then ((m.switchTo .data).emitDoctype, rest)
    else if c == 0x22 then
      -- ": missing-whitespace-between-doctype-public-and-system-identifiers parse error. Set the DOCTYPE
      -- token's system identifier to the empty string (not missing), then switch to the DOCTYPE system
      -- identifier (double-quoted) state.
      (((m.err "missing-whitespace-between-doctype-public-and-system-identifiers").setSystemIdEmpty).switchTo .DOCTYPESystemIdentifierDoubleQuoted, rest)
    else if c == 0x27 then
      (((m.err "missing-whitespace-between-doctype-public-and-system-identifiers").setSystemIdEmpty).switchTo .DOCTYPESystemIdentifierSingleQuoted, rest)
    else doctypeBogus m "missing-quote-before-doctype-system-identifier" input

/-- 13.2.5.62 Between DOCTYPE public and system identifiers state -/
def betweenDOCTYPEPublicAndSystemIdentifiersState (m : M) (input : Str) : M × Str :=
  match input with
  | [] => doctypeEOF m
  | c :: rest =>
    if isWhitespace c then (m, rest)
    else if c == 0x3E then ((m.switchTo .data).emitDoctype, rest)
    else if c == 0x22 then (m.setSystemIdEmpty.switchTo .DOCTYPESystemIdentifierDoubleQuoted, rest)
    else if c == 0x27 then (m.setSystemIdEmpty.switchTo .DOCTYPESystemIdentifierSingleQuoted, rest)
    else doctypeBogus m "missing-quote-before-doctype-system-identifier" input

/-- 13.2.5.63 After DOCTYPE system keyword state -/
def afterDOCTYPESystemKeywordState (m : M) (input : Str) : M × Str :=
  match input with
  | [] => doctypeEOF m
  | c :: rest =>
    if isWhitespace c then (m.switchTo .beforeDOCTYPESystemIdentifier, rest)
    else if c == 0x22 then
      (((m.err "missing-whitespace-after-doctype-system-keyword").setSystemIdEmpty).switchTo .DOCTYPESystemIdentifierDoubleQuoted, rest)
    else if c == 0x27 then
      (((m.err "missing-whitespace-after-doctype-system-keyword").setSystemIdEmpty).switchTo .DOCTYPESystemIdentifierSingleQuoted, rest)
    else if c == 0x3E then doctypeAbrupt m "missing-doctype-system-identifier" rest
    else doctypeBogus m "missing-quote-before-doctype-system-identifier" input

/-- 13.2.5.64 Before DOCTYPE system identifier state -/
def beforeDOCTYPESystemIdentifierState (m : M) (input : Str) : M × Str :=
  match input with
  | [] => doctypeEOF m
  | c :: rest =>
    if isWhitespace c then (m, rest)
    else if c == 0x22 then (m.setSystemIdEmpty.switchTo .DOCTYPESystemIdentifierDoubleQuoted, rest)
    else if c == 0x27 then (m.setSystemIdEmpty.switchTo .DOCTYPESystemIdentifierSingleQuoted, rest)
    else if c == 0x3E then doctypeAbrupt m "missing-doctype-system-identifier" rest
    else doctypeBogus m "missing-quote-before-doctype-system-identifier" input

/-- text shared by 13.2.5.65 / .66 -/
def DOCTYPESystemIdentifierQuotedGeneric (q : Nat) (m : M) (input : Str) : M × Str :=
  match input with
  | [] => doctypeEOF m
  | c :: rest =>
    if c == q then (m.switchTo .afterDOCTYPESystemIdentifier, rest)
    else if c == 0 then ((m.err "unexpected-null-character").appendSystemId REPLACEMENT, rest)
    else if c == 0x3E then doctypeAbrupt m "abrupt-doctype-system-identifier" rest
    else (m.appendSystemId c, rest)

/-- 13.2.5.65 DOCTYPE system identifier (double-quoted) state -/
def DOCTYPESystemIdentifierDoubleQuotedState := DOCTYPESystemIdentifierQuotedGeneric 0x22
/-- 13.2.5.66 DOCTYPE system identifier (single-quoted) state -/
def DOCTYPESystemIdentifierSingleQuotedState := DOCTYPESystemIdentifierQuotedGeneric 0x27

/-- 13.2.5.67 After DOCTYPE system identifier state -/
def afterDOCTYPESystemIdentifierState (m : M) (input : Str) : M × Str :=
  match input with
  | [] => doctypeEOF m
  | c :: rest =>
    if isWhitespace c then (m, rest)
    else if c == 0x3E then ((m.switchTo .data).emitDoctype, rest)
    else
      -- unexpected-character-after-doctype-system-identifier parse error. Reconsume in the bogus DOCTYPE
      -- state. (This does not set the DOCTYPE token's force-quirks flag to on.)
      ((m.err "unexpected-character-after-doctype-system-identifier").switchTo .bogusDOCTYPE, input)

/-- 13.2.5.68 Bogus DOCTYPE state -/
def bogusDOCTYPEState (m : M) (input : Str) : M × Str :=
  match input with
  | [] => (m.emitDoctype.emitEOF, [])              -- EOF: Emit the DOCTYPE token. Emit an end-of-file token.
  | c :: rest =>
    if c == 0x3E then ((m.switchTo .data).emitDoctype, rest)
    else if c == 0 then (m.err "unexpected-null-character", rest)   -- Ignore the character.
    else (m, rest)

/-! ## 13.2.5.69 – 13.2.5.71: CDATA sections -/

/-- 13.2.5.69 CDATA section state -/
def CDATASectionState (m : M) (input : Str) : M × Str :=
  match input with
  | [] => ((m.err "eof-in-cdata").emitEOF, [])
  | c :: rest =>
    if c == 0x5D then (m.switchTo .CDATASectionBracket, rest)
    else (m.emitChar c, rest)  -- (U+0000 NULL characters are handled in the tree construction stage)

/-- 13.2.5.70 CDATA section bracket state -/
def CDATASectionBracketState (m : M) (input : Str) : M × Str :=
  match input with
  | c :: rest =>
    if c == 0x5D then (m.switchTo .CDATASectionEnd, rest)
    else ((m.emitChar 0x5D).switchTo .CDATASection, input)
  | [] => ((m.emitChar 0x5D).switchTo .CDATASection, input)

/-- 13.2.5.71 CDATA section end state -/
def CDATASectionEndState (m : M) (input : Str) : M × Str :=
  match input with
  | c :: rest =>
    if c == 0x5D then (m.emitChar 0x5D, rest)
    else if c == 0x3E then (m.switchTo .data, rest)
    else (((m.emitChar 0x5D).emitChar 0x5D).switchTo .CDATASection, input)
  | [] => (((m.emitChar 0x5D).emitChar 0x5D).switchTo .CDATASection, input)

/-! ## 13.2.5.72 – 13.2.5.80: character references -/

/-- 13.2.5.72 Character reference state -/
def characterReferenceState (m : M) (input : Str) : M × Str :=
  -- Set the temporary buffer to the empty string. Append a U+0026 AMPERSAND (&) character to the
  -- temporary buffer. Consume the next input character:
  let m := { m with temporaryBuffer := [0x26] }
  -- Anything else: Flush code points consumed as a character reference. Reconsume in the return state.
  let anythingElse : M × Str := (m.flushCodePoints.switchTo m.returnState, input)
  match input with
  | [] => anythingElse
  | c :: rest =>
    if isASCIIAlphanumeric c then (m.switchTo .namedCharacterReference, input)
    else if c == 0x23 then -- #: Append the current input character to the temporary buffer. Switch to the numeric character reference state.
      ({ m with temporaryBuffer := m.temporaryBuffer ++ [c] }.switchTo .numericCharacterReference, rest)
    else anythingElse

/-- "Consume the maximum number of characters possible, where the consumed characters are one of the
identifiers in the first column of the named character references table": the longest table entry
that is a prefix of the input (the table `H5.Gen.entities` is proved equal to the standard's table
elsewhere). -/
def longestNamedReference (input : Str) : Option (Str × Str) :=
  H5.Gen.entities.foldl (fun best e =>
    if e.1.isPrefixOf input then
      match best with
      | some b => if b.1.length < e.1.length then some e else best
      | none => some e
    else best) none

/-- 13.2.5.73 Named character reference state -/
def namedCharacterReferenceState (m : M) (input : Str) : M × Str :=
  match longestNamedReference input with
  | some (name, value) =>
    -- Append each character to the temporary buffer when it's consumed.
    let m := { m with temporaryBuffer := m.temporaryBuffer ++ name }
    let rest := input.drop name.length
    let lastIsSemicolon := name.getLast? == some 0x3B
    let nextIsEqualsOrAlnum := match rest with
      | c :: _ => c == 0x3D || isASCIIAlphanumeric c
      | [] => false
    if m.consumedAsPartOfAnAttribute && !lastIsSemicolon && nextIsEqualsOrAlnum then
      -- If the character reference was consumed as part of an attribute, and the last character matched is
      -- not a U+003B SEMICOLON character (;), and the next input character is either a U+003D EQUALS SIGN
      -- character (=) or an ASCII alphanumeric, then, for historical reasons, flush code points consumed as
      -- a character reference and switch to the return state.
      (m.flushCodePoints.switchTo m.returnState, rest)
    else
      -- 1. If the last character matched is not a U+003B SEMICOLON character (;), then this is a
      --    missing-semicolon-after-character-reference parse error.
      let m := if lastIsSemicolon then m else m.err "missing-semicolon-after-character-reference"
      -- 2. Set the temporary buffer to the empty string. Append one or two characters corresponding to the
      --    character reference name (as given by the second column of the table) to the temporary buffer.
      let m := { m with temporaryBuffer := value }
      -- 3. Flush code points consumed as a character reference. Switch to the return state.
      (m.flushCodePoints.switchTo m.returnState, rest)
  | none =>
    -- Otherwise: Flush code points consumed as a character reference. Switch to the ambiguous ampersand state.
    (m.flushCodePoints.switchTo .ambiguousAmpersand, input)

/-- 13.2.5.74 Ambiguous ampersand state -/
def ambiguousAmpersandState (m : M) (input : Str) : M × Str :=
  match input with
  | [] => (m.switchTo m.returnState, input)
  | c :: rest =>
    if isASCIIAlphanumeric c then
      -- If the character reference was consumed as part of an attribute, then append the current input
      -- character to the current attribute's value. Otherwise, emit the current input character as a
      -- character token.
      if m.consumedAsPartOfAnAttribute then (m.appendAttrValue [c], rest) else (m.emitChar c, rest)
    else if c == 0x3B then -- ;: unknown-named-character-reference parse error. Reconsume in the return state.
      ((m.err "unknown-named-character-reference").switchTo m.returnState, input)
    else (m.switchTo m.returnState, input)

/-- 13.2.5.75 Numeric character reference state -/
def numericCharacterReferenceState (m : M) (input : Str) : M × Str :=
  -- Set the character reference code to zero (0).
  let m := { m with characterReferenceCode := 0 }
  match input with
  | c :: rest =>
    if c == 0x78 || c == 0x58 then -- x, X: Append the current input character to the temporary buffer. Switch to the hexadecimal character reference start state.
      ({ m with temporaryBuffer := m.temporaryBuffer ++ [c] }.switchTo .hexadecimalCharacterReferenceStart, rest)
    else (m.switchTo .decimalCharacterReferenceStart, input)
  | [] => (m.switchTo .decimalCharacterReferenceStart, input)

/-- 13.2.5.76 Hexadecimal character reference start state -/
def hexadecimalCharacterReferenceStartState (m : M) (input : Str) : M × Str :=
  -- Anything else: absence-of-digits-in-numeric-character-reference parse error. Flush code points
  -- consumed as a character reference. Reconsume in the return state.
  let anythingElse : M × Str :=
    (((m.err "absence-of-digits-in-numeric-character-reference").flushCodePoints).switchTo m.returnState, input)
  match input with
  | c :: _ => if isASCIIHexDigit c then (m.switchTo .hexadecimalCharacterReference, input) else anythingElse
  | [] => anythingElse

/-- 13.2.5.77 Decimal character reference start state -/
def decimalCharacterReferenceStartState (m : M) (input : Str) : M × Str :=
  let anythingElse : M × Str :=
    (((m.err "absence-of-digits-in-numeric-character-reference").flushCodePoints).switchTo m.returnState, input)
  match input with
  | c :: _ => if isASCIIDigit c then (m.switchTo .decimalCharacterReference, input) else anythingElse
  | [] => anythingElse

/-- 13.2.5.78 Hexadecimal character reference state -/
def hexadecimalCharacterReferenceState (m : M) (input : Str) : M × Str :=
  -- Anything else: missing-semicolon-after-character-reference parse error. Reconsume in the numeric
  -- character reference end state.
  let anythingElse : M × Str :=
    ((m.err "missing-semicolon-after-character-reference").switchTo .numericCharacterReferenceEnd, input)
  match input with
  | [] => anythingElse
  | c :: rest =>
    if isASCIIDigit c then
      -- Multiply the character reference code by 16. Add a numeric version of the current input character
      -- (subtract 0x0030 from the character's code point) to the character reference code.
      ({ m with characterReferenceCode := m.characterReferenceCode * 16 + (c - 0x30) }, rest)
    else if isASCIIUpperHexDigit c then   -- (subtract 0x0037)
      ({ m with characterReferenceCode := m.characterReferenceCode * 16 + (c - 0x37) }, rest)
    else if isASCIILowerHexDigit c then   -- (subtract 0x0057)
      ({ m with characterReferenceCode := m.characterReferenceCode * 16 + (c - 0x57) }, rest)
    else if c == 0x3B then (m.switchTo .numericCharacterReferenceEnd, rest)
    else anythingElse

/-- 13.2.5.79 Decimal character reference state -/
def decimalCharacterReferenceState (m : M) (input : Str) : M × Str :=
  let anythingElse : M × Str :=
    ((m.err "missing-semicolon-after-character-reference").switchTo .numericCharacterReferenceEnd, input)
  match input with
  | [] => anythingElse
  | c :: rest =>
    if isASCIIDigit c then
      ({ m with characterReferenceCode := m.characterReferenceCode * 10 + (c - 0x30) }, rest)
    else if c == 0x3B then (m.switchTo .numericCharacterReferenceEnd, rest)
    else anythingElse

/-- The table of 13.2.5.80 (numeric character reference end state): Windows-1252 re-mapping of the
C1 controls.  27 rows. -/
def c1ReplacementTable : List (Nat × Nat) := [
  (0x80, 0x20AC),  -- EURO SIGN (€)
  (0x82, 0x201A),  -- SINGLE LOW-9 QUOTATION MARK (‚)
  (0x83, 0x0192),  -- LATIN SMALL LETTER F WITH HOOK (ƒ)
  (0x84, 0x201E),  -- DOUBLE LOW-9 QUOTATION MARK („)
  (0x85, 0x2026),  -- HORIZONTAL ELLIPSIS (…)
  (0x86, 0x2020),  -- DAGGER (†)
  (0x87, 0x2021),  -- DOUBLE DAGGER (‡)
  (0x88, 0x02C6),  -- MODIFIER LETTER CIRCUMFLEX ACCENT (ˆ)
  (0x89, 0x2030),  -- PER MILLE SIGN (‰)
  (0x8A, 0x0160),  -- LATIN CAPITAL LETTER S WITH CARON (Š)
  (0x8B, 0x2039),  -- SINGLE LEFT-POINTING ANGLE QUOTATION MARK (‹)
  (0x8C, 0x0152),  -- LATIN CAPITAL LIGATURE OE (Œ)
  (0x8E, 0x017D),  -- LATIN CAPITAL LETTER Z WITH CARON (Ž)
  (0x91, 0x2018),  -- LEFT SINGLE QUOTATION MARK (‘)
  (0x92, 0x2019),  -- RIGHT SINGLE QUOTATION MARK (’)
  (0x93, 0x201C),  -- LEFT DOUBLE QUOTATION MARK (“)
  (0x94, 0x201D),  -- RIGHT DOUBLE QUOTATION MARK (”)
  (0x95, 0x2022),  -- BULLET (•)
  (0x96, 0x2013),  -- EN DASH (–)
  (0x97, 0x2014),  -- EM DASH (—)
  (0x98, 0x02DC),  -- SMALL TILDE (˜)
  (0x99, 0x2122),  -- TRADE MARK SIGN (™)
  (0x9A, 0x0161),  -- LATIN SMALL LETTER S WITH CARON (š)
  (0x9B, 0x203A),  -- SINGLE RIGHT-POINTING ANGLE QUOTATION MARK (›)
  (0x9C, 0x0153),  -- LATIN SMALL LIGATURE OE (œ)
  (0x9E, 0x017E),  -- LATIN SMALL LETTER Z WITH CARON (ž)
  (0x9F, 0x0178)]  -- LATIN CAPITAL LETTER Y WITH DIAERESIS (Ÿ)

/-- "Check the character reference code" (13.2.5.80): the resulting code point and the parse error,
if any. -/
def numericRef (n : Nat) : Nat × Option String :=
  if n == 0 then
    -- If the number is 0x00, then this is a null-character-reference parse error. Set the character
    -- reference code to 0xFFFD.
    (REPLACEMENT, some "null-character-reference")
  else if n > 0x10FFFF then
    -- If the number is greater than 0x10FFFF, then this is a character-reference-outside-unicode-range
    -- parse error. Set the character reference code to 0xFFFD.
    (REPLACEMENT, some "character-reference-outside-unicode-range")
  else if isSurrogate n then
    -- If the number is a surrogate, then this is a surrogate-character-reference parse error. Set the
    -- character reference code to 0xFFFD.
    (REPLACEMENT, some "surrogate-character-reference")
  else if isNoncharacter n then
    -- If the number is a noncharacter, then this is a noncharacter-character-reference parse error.
    (n, some "noncharacter-character-reference")
  else if n == 0x0D || (isControl n && !isASCIIWhitespace n) then
    -- If the number is 0x0D, or a control that's not ASCII whitespace, then this is a
    -- control-character-reference parse error. If the number is one of the numbers in the first column of
    -- the following table, then find the row with that number in the first column, and set the character
    -- reference code to the number in the second column of that row.
    ((c1ReplacementTable.lookup n).getD n, some "control-character-reference")
  else (n, none)

/-- 13.2.5.80 Numeric character reference end state (consumes nothing) -/
def numericCharacterReferenceEndState (m : M) (input : Str) : M × Str :=
  let (code, e) := numericRef m.characterReferenceCode
  let m := match e with | some code => m.err code | none => m
  -- Set the temporary buffer to the empty string. Append a code point equal to the character reference
  -- code to the temporary buffer. Flush code points consumed as a character reference. Switch to the
  -- return state.
  let m := { m with characterReferenceCode := code, temporaryBuffer := [code] }
  (m.flushCodePoints.switchTo m.returnState, input)

/-! ## The machine -/

/-- one pass through the current state -/
def step (m : M) (input : Str) : M × Str :=
  match m.state with
  | .data => dataState m input
  | .RCDATA => RCDATAState m input
  | .RAWTEXT => RAWTEXTState m input
  | .scriptData => scriptDataState m input
  | .PLAINTEXT => PLAINTEXTState m input
  | .tagOpen => tagOpenState m input
  | .endTagOpen => endTagOpenState m input
  | .tagName => tagNameState m input
  | .RCDATALessThanSign => RCDATALessThanSignState m input
  | .RCDATAEndTagOpen => RCDATAEndTagOpenState m input
  | .RCDATAEndTagName => RCDATAEndTagNameState m input
  | .RAWTEXTLessThanSign => RAWTEXTLessThanSignState m input
  | .RAWTEXTEndTagOpen => RAWTEXTEndTagOpenState m input
  | .RAWTEXTEndTagName => RAWTEXTEndTagNameState m input
  | .scriptDataLessThanSign => scriptDataLessThanSignState m input
  | .scriptDataEndTagOpen => scriptDataEndTagOpenState m input
  | .scriptDataEndTagName => scriptDataEndTagNameState m input
  | .scriptDataEscapeStart => scriptDataEscapeStartState m input
  | .scriptDataEscapeStartDash => scriptDataEscapeStartDashState m input
  | .scriptDataEscaped => scriptDataEscapedState m input
  | .scriptDataEscapedDash => scriptDataEscapedDashState m input
  | .scriptDataEscapedDashDash => scriptDataEscapedDashDashState m input
  | .scriptDataEscapedLessThanSign => scriptDataEscapedLessThanSignState m input
  | .scriptDataEscapedEndTagOpen => scriptDataEscapedEndTagOpenState m input
  | .scriptDataEscapedEndTagName => scriptDataEscapedEndTagNameState m input
  | .scriptDataDoubleEscapeStart => scriptDataDoubleEscapeStartState m input
  | .scriptDataDoubleEscaped => scriptDataDoubleEscapedState m input
  | .scriptDataDoubleEscapedDash => scriptDataDoubleEscapedDashState m input
  | .scriptDataDoubleEscapedDashDash => scriptDataDoubleEscapedDashDashState m input
  | .scriptDataDoubleEscapedLessThanSign => scriptDataDoubleEscapedLessThanSignState m input
  | .scriptDataDoubleEscapeEnd => scriptDataDoubleEscapeEndState m input
  | .beforeAttributeName => beforeAttributeNameState m input
  | .attributeName => attributeNameState m input
  | .afterAttributeName => afterAttributeNameState m input
  | .beforeAttributeValue => beforeAttributeValueState m input
  | .attributeValueDoubleQuoted => attributeValueDoubleQuotedState m input
  | .attributeValueSingleQuoted => attributeValueSingleQuotedState m input
  | .attributeValueUnquoted => attributeValueUnquotedState m input
  | .afterAttributeValueQuoted => afterAttributeValueQuotedState m input
  | .selfClosingStartTag => selfClosingStartTagState m input
  | .bogusComment => bogusCommentState m input
  | .markupDeclarationOpen => markupDeclarationOpenState m input
  | .commentStart => commentStartState m input
  | .commentStartDash => commentStartDashState m input
  | .comment => commentState m input
  | .commentLessThanSign => commentLessThanSignState m input
  | .commentLessThanSignBang => commentLessThanSignBangState m input
  | .commentLessThanSignBangDash => commentLessThanSignBangDashState m input
  | .commentLessThanSignBangDashDash => commentLessThanSignBangDashDashState m input
  | .commentEndDash => commentEndDashState m input
  | .commentEnd => commentEndState m input
  | .commentEndBang => commentEndBangState m input
  | .DOCTYPE => DOCTYPEState m input
  | .beforeDOCTYPEName => beforeDOCTYPENameState m input
  | .DOCTYPEName => DOCTYPENameState m input
  | .afterDOCTYPEName => afterDOCTYPENameState m input
  | .afterDOCTYPEPublicKeyword => afterDOCTYPEPublicKeywordState m input
  | .beforeDOCTYPEPublicIdentifier => beforeDOCTYPEPublicIdentifierState m input
  | .DOCTYPEPublicIdentifierDoubleQuoted => DOCTYPEPublicIdentifierDoubleQuotedState m input
  | .DOCTYPEPublicIdentifierSingleQuoted => DOCTYPEPublicIdentifierSingleQuotedState m input
  | .afterDOCTYPEPublicIdentifier => afterDOCTYPEPublicIdentifierState m input
  | .betweenDOCTYPEPublicAndSystemIdentifiers => betweenDOCTYPEPublicAndSystemIdentifiersState m input
  | .afterDOCTYPESystemKeyword => afterDOCTYPESystemKeywordState m input
  | .beforeDOCTYPESystemIdentifier => beforeDOCTYPESystemIdentifierState m input
  | .DOCTYPESystemIdentifierDoubleQuoted => DOCTYPESystemIdentifierDoubleQuotedState m input
  | .DOCTYPESystemIdentifierSingleQuoted => DOCTYPESystemIdentifierSingleQuotedState m input
  | .afterDOCTYPESystemIdentifier => afterDOCTYPESystemIdentifierState m input
  | .bogusDOCTYPE => bogusDOCTYPEState m input
  | .CDATASection => CDATASectionState m input
  | .CDATASectionBracket => CDATASectionBracketState m input
  | .CDATASectionEnd => CDATASectionEndState m input
  | .characterReference => characterReferenceState m input
  | .namedCharacterReference => namedCharacterReferenceState m input
  | .ambiguousAmpersand => ambiguousAmpersandState m input
  | .numericCharacterReference => numericCharacterReferenceState m input
  | .hexadecimalCharacterReferenceStart => hexadecimalCharacterReferenceStartState m input
  | .decimalCharacterReferenceStart => decimalCharacterReferenceStartState m input
  | .hexadecimalCharacterReference => hexadecimalCharacterReferenceState m input
  | .decimalCharacterReference => decimalCharacterReferenceState m input
  | .numericCharacterReferenceEnd => numericCharacterReferenceEndState m input

/-- run until the end-of-file token has been emitted; also returns the number of steps made -/
def run : Nat → M → Str → Nat → Except PyErr (List TTok × Nat)
  | 0, _, _, _ => .error (.outOfFuel "Spec.Tokenizer.run")
  | fuel + 1, m, input, n =>
    if m.done then .ok (m.out.reverse, n)
    else
      let r := step m input
      run fuel r.1 r.2 (n + 1)

/-- Fuel.  A step either consumes at least one code point or it does not ("Reconsume in the X
state", or one of the three sections that may consume nothing: markup declaration open /anything
else/, named character reference /no match/, numeric character reference end).  Going through the
sections one finds that a non-consuming step always leads to a state that, on the same current
character, either consumes it or makes exactly one more non-consuming step to a state that consumes
it; the chains of two non-consuming steps are

  * after attribute value (quoted) / self-closing start tag → before attribute name → attribute
    name | after attribute name (which then consume),
  * comment less-than sign bang dash → comment end dash → comment,
    comment less-than sign bang dash dash → comment end → comment,
  * character reference → named character reference (no match) → ambiguous ampersand (the current
    character is alphanumeric there, so it is consumed),
  * numeric character reference → decimal character reference start → decimal character reference |
    return state,
  * hexadecimal / decimal character reference → numeric character reference end → return state
    (data, RCDATA and the three attribute value states consume every character).

  Hence at most 3 steps per code point.  At EOF the same chains end in a state whose EOF entry emits
  the end-of-file token: at most 3 steps, and one more iteration observes `done`.
  So `3·|input| + 4` suffices (`spec_corr.py` checks `steps ≤ 3·|input| + 3` on every case). -/
def fuelFor (input : Str) : Nat := 3 * input.length + 4

def initial (initialState : State) (lastStartTag : Option Str) (cdataAllowed : Bool) : M :=
  { state := initialState, lastStartTagName := lastStartTag, cdataAllowed := cdataAllowed }

end H5.Spec.Tokenizer

namespace H5.Spec
open H5 H5.Spec.Tokenizer

/-- The tokens the standard's tokenizer emits for `input` (already newline-normalised), started in
`initialState` with the given "last start tag" and CDATA permission. -/
def tokenize (initialState : Tokenizer.State) (lastStartTag : Option Str) (cdataAllowed : Bool)
    (input : Str) : Except PyErr (List TTok) :=
  (Tokenizer.run (fuelFor input) (initial initialState lastStartTag cdataAllowed) input 0).map (·.1)

def tokenizeSteps (initialState : Tokenizer.State) (lastStartTag : Option Str) (cdataAllowed : Bool)
    (input : Str) : Except PyErr Nat :=
  (Tokenizer.run (fuelFor input) (initial initialState lastStartTag cdataAllowed) input 0).map (·.2)

end H5.Spec
