/- H5.Spec.Walk — the obvious recursive token stream of a tree. -/
import H5.Model.Walker
namespace H5.Spec
open H5 H5.Model.Walker

mutual
def walkRec : Tree → List Tok
  | .doc cs => walkList cs
  | .frag cs => walkList cs
  | .elem ns name attrs cs =>
      if isVoid ns name then .emptyTag ns name attrs :: (if cs.isEmpty then [] else [.serr voidHasChildren])
      else .startTag ns name attrs :: (walkList cs ++ [.endTag ns name])
  | .doctype n p s => [.doctype n p s]
  | .text s => textToks s
  | .comment s => [.comment s]
def walkList : List Tree → List Tok
  | [] => []
  | t :: ts => walkRec t ++ walkList ts
end

end H5.Spec
