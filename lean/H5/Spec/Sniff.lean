/-
  H5.Spec.Sniff — reference for the encoding determination, written from the standards
  (HTML standard 13.2.3 "Determining the character encoding", "prescan a byte stream to determine its encoding",
  "get an attribute", "extracting a character encoding from a meta element"; Encoding standard "BOM sniff",
  "get an encoding").  Shares no code with H5.Model.Encoding except the label table of the Encoding standard
  (H5.Gen.Encodings.encodingLabels, extracted from webencodings — the one trusted table).

  Not covered (newer than html5lib): the UTF-16 XML-declaration check at the start of the prescan.
-/
import H5.Basic
import H5.Gen.Encodings
namespace H5.Spec.Sniff
open H5 H5.Gen

abbrev Bytes := List Nat

/-! ### Encoding standard -/

def isAsciiWs (c : Nat) : Bool := c = 9 || c = 10 || c = 12 || c = 13 || c = 32

def trimWs (s : Str) : Str := ((s.dropWhile isAsciiWs).reverse.dropWhile isAsciiWs).reverse

/-- "get an encoding": trim ASCII whitespace, ASCII-lowercase, look the label up -/
def getAnEncoding (label : Str) : Option Str :=
  let l := (trimWs label).map fun c => if 65 ≤ c ∧ c ≤ 90 then c + 32 else c
  match encodingLabels.filter (fun kv => kv.1 = l) with
  | kv :: _ => some kv.2
  | [] => none

/-- "BOM sniff": EF BB BF → UTF-8, FE FF → UTF-16BE, FF FE → UTF-16LE; (encoding, length of the BOM) -/
def bomSniff (data : Bytes) : Option (Str × Nat) :=
  match data with
  | 0xEF :: 0xBB :: 0xBF :: _ => some (lit "utf-8", 3)
  | 0xFE :: 0xFF :: _ => some (lit "utf-16be", 2)
  | 0xFF :: 0xFE :: _ => some (lit "utf-16le", 2)
  | _ => none

/-! ### documented precedence (the property statement / HTML standard "determining the character encoding") -/

def firstSome {α : Type} : List (Option α) → Option α
  | [] => none
  | some a :: _ => some a
  | none :: r => firstSome r

inductive Confidence where
  | certain | tentative
  deriving Repr, DecidableEq

structure Sources where
  bom : Option Str              -- encoding of a byte-order mark
  override : Option Str         -- the five arguments (labels)
  transport : Option Str
  metaDecl : Option Str             -- result of the prescan of the first 1024 bytes (already UTF-16 → UTF-8)
  parent : Option Str
  likely : Option Str
  default : Option Str

def isUtf16 (e : Str) : Bool := e = lit "utf-16le" || e = lit "utf-16be"

def label? (l : Option Str) : Option Str := l.bind getAnEncoding

/-- the documented order: BOM, override, transport (certain); meta prescan, parent unless UTF-16, likely, default,
windows-1252 (tentative) -/
def precedence (s : Sources) : Str × Confidence :=
  match firstSome [s.bom, label? s.override, label? s.transport] with
  | some e => (e, .certain)
  | none =>
    match firstSome [s.metaDecl, (label? s.parent).filter (fun e => !isUtf16 e), label? s.likely, label? s.default] with
    | some e => (e, .tentative)
    | none => (lit "windows-1252", .tentative)

/-! ### changing the encoding while parsing (a `<meta>` met by the tree builder) -/

inductive LateChange where
  | unchanged
  | nowCertain
  | restart (enc : Str)
  deriving Repr, DecidableEq

/-- HTML standard: the meta start tag in "in head" calls "change the encoding" only while the confidence is
tentative and the label is an encoding; "changing the encoding while parsing": a UTF-16 document keeps its encoding
(confidence becomes certain); a declared UTF-16 means UTF-8, x-user-defined means windows-1252; the same encoding
only makes the confidence certain; otherwise the document is parsed again with the new encoding. -/
def changeWhileParsing (cur : Str) (conf : Confidence) (label : Str) : LateChange :=
  if conf = .certain then .unchanged
  else match getAnEncoding label with
    | none => .unchanged
    | some new =>
      if isUtf16 cur then .nowCertain
      else
        let new := if isUtf16 new then lit "utf-8" else if new = lit "x-user-defined" then lit "windows-1252" else new
        if new = cur then .nowCertain else .restart new

/-! ### deviations

  The prescan below is parametrised by a set of *deviations*; with every flag `false` (the default, `{}`) it is the
  algorithm of the standard.  Each flag switches ONE documented difference of html5lib's `EncodingParser` on; with all
  flags on (`html5libDevBefore`) the function agreed with the real `detectEncodingMeta` before the repairs; the repaired
  library is `html5libDev = {}`, i.e. the standard (checked by the harness on the exhaustive test domains).  The oracle uses the flags to attribute every observed
  difference between the real code and the standard to a minimal set of these deviations.
-/
structure Dev where
  /-- `<!-->` / `<!--->` do not close the comment: `-->` is searched after the four bytes `<!--` -/
  commentNoOverlap : Bool := false
  /-- `<meta` must be followed by whitespace (not `/`); otherwise it is neither a meta nor a tag: scanning simply
  resumes two bytes later (attributes are not consumed) -/
  metaNeedsSpace : Bool := false
  /-- after `</` the ASCII-letter test looks at the SECOND byte after the slash -/
  endTagOffByOne : Bool := false
  /-- `<` followed by anything that starts no construct: the byte after `<` is skipped unexamined (`<<meta` is missed) -/
  skipByteAfterLt : Bool := false
  /-- `<` also terminates a tag name (and is then reprocessed) and an unquoted attribute value -/
  ltTerminates : Bool := false
  /-- `handleMeta` decides attribute by attribute and returns at once instead of collecting all attributes first -/
  eagerMeta : Bool := false
  /-- no "attribute name already seen" rule -/
  noDedup : Bool := false
  /-- content attribute: give up when the first "charset" is not followed by `=` -/
  contentNoRetry : Bool := false
  /-- content attribute: an unquoted value ends at whitespace only (not at `;`) -/
  contentNoSemicolon : Bool := false
  /-- `x-user-defined` is not mapped to windows-1252 -/
  noUserDefinedMap : Bool := false
  deriving Repr, DecidableEq

/-- the configuration that describes the CURRENT library: no deviation is left (repairs COMMIT_noUserDefinedMap …
COMMIT_eagerMeta); the switches above stay for the regression examples and for the harness, which attributes a
returning difference to them -/
def html5libDev : Dev := {}

/-- the library before those repairs: all ten deviations -/
def html5libDevBefore : Dev :=
  { commentNoOverlap := true, metaNeedsSpace := true, endTagOffByOne := true, skipByteAfterLt := true,
    ltTerminates := true, eagerMeta := true, noDedup := true, contentNoRetry := true, contentNoSemicolon := true,
    noUserDefinedMap := true }

/-! ### get an attribute -/

inductive GA where
  | eof                                   -- ran out of bytes: the whole prescan gives up
  | none (rest : Bytes)                   -- no attribute (position at `>`)
  | attr (name value : Bytes) (rest : Bytes)
  deriving Repr

def lower (c : Nat) : Nat := if 65 ≤ c ∧ c ≤ 90 then c + 32 else c

/-- step 11-12: unquoted value -/
def gaUnquoted (dev : Dev) (name value : Bytes) : Bytes → GA
  | [] => .eof
  | c :: r =>
    if isAsciiWs c || c = 62 || (dev.ltTerminates && c = 60) then .attr name value (c :: r)
    else gaUnquoted dev name (value ++ [lower c]) r

/-- quote loop -/
def gaQuoted (q : Nat) (name value : Bytes) : Bytes → GA
  | [] => .eof
  | c :: r => if c = q then .attr name value r else gaQuoted q name (value ++ [lower c]) r

/-- steps 9-10: after `=` -/
def gaValue (dev : Dev) (name : Bytes) : Bytes → GA
  | [] => .eof
  | c :: r =>
    if isAsciiWs c then gaValue dev name r
    else if c = 34 || c = 39 then gaQuoted c name [] r
    else if c = 62 then .attr name [] (c :: r)
    else gaUnquoted dev name [lower c] r

/-- steps 6-8: spaces after the name -/
def gaSpaces (dev : Dev) (name : Bytes) : Bytes → GA
  | [] => .eof
  | c :: r =>
    if isAsciiWs c then gaSpaces dev name r
    else if c ≠ 61 then .attr name [] (c :: r)
    else gaValue dev name r

/-- steps 4-5: attribute name -/
def gaName (dev : Dev) (name : Bytes) : Bytes → GA
  | [] => .eof
  | c :: r =>
    if c = 61 && !name.isEmpty then gaValue dev name r
    else if isAsciiWs c then gaSpaces dev name (c :: r)
    else if c = 47 || c = 62 then .attr name [] (c :: r)
    else gaName dev (name ++ [lower c]) r

/-- steps 1-3 -/
def getAnAttribute (dev : Dev) : Bytes → GA
  | [] => .eof
  | c :: r =>
    if isAsciiWs c || c = 47 then getAnAttribute dev r
    else if c = 62 then .none (c :: r)
    else gaName dev [] (c :: r)

/-! ### extracting a character encoding from a meta element -/

def isPrefixCI (p : Bytes) (s : Bytes) : Bool := p.isPrefixOf (s.map lower)

/-- the loop over occurrences of "charset" -/
def extractLoop (dev : Dev) : Nat → Bytes → Option Str
  | 0, _ => none
  | fuel + 1, s =>
    match s with
    | [] => none
    | _ :: tail =>
      if isPrefixCI (lit "charset") s then
        let after := (s.drop 7).dropWhile isAsciiWs
        match after with
        | [] => none
        | c :: r =>
          if c ≠ 61 then
            if dev.contentNoRetry then none
            else extractLoop dev fuel after           -- continue the search just before that character
          else
            let v := r.dropWhile isAsciiWs
            match v with
            | [] => none
            | q :: w =>
              if q = 34 || q = 39 then
                if w.elem q then getAnEncoding (w.takeWhile (· ≠ q)) else none
              else getAnEncoding (v.takeWhile (fun x => !(isAsciiWs x || (!dev.contentNoSemicolon && x = 59))))
      else extractLoop dev fuel tail

def extractCharset (dev : Dev) (s : Bytes) : Option Str := extractLoop dev (s.length + 1) s

/-! ### prescan -/

structure MetaSt where
  seen : List Bytes := []
  gotPragma : Bool := false
  needPragma : Option Bool := none
  charset : Option (Option Str) := none         -- none = null, some none = failure

/-- the final mapping of a found encoding: UTF-16 → UTF-8, x-user-defined → windows-1252 -/
def finalMap (dev : Dev) (e : Str) : Str :=
  if isUtf16 e then lit "utf-8"
  else if !dev.noUserDefinedMap && e = lit "x-user-defined" then lit "windows-1252"
  else e

/-- result of the attribute loop of a `<meta`: ran out of bytes, or the state and the position after it -/
def metaAttrs (dev : Dev) : Nat → MetaSt → Bytes → Option (MetaSt × Bytes)
  | 0, _, _ => none
  | fuel + 1, st, rest =>
    match getAnAttribute dev rest with
    | .eof => none
    | .none rest' => some (st, rest')
    | .attr name value rest' =>
      if !dev.noDedup && st.seen.elem name then metaAttrs dev fuel st rest'
      else
        let st := { st with seen := name :: st.seen }
        let st :=
          if name = lit "http-equiv" then
            if value = lit "content-type" then { st with gotPragma := true } else st
          else if name = lit "content" then
            match extractCharset dev value, st.charset with
            | some e, none => { st with charset := some (some e), needPragma := some true }
            | _, _ => st
          else if name = lit "charset" then
            { st with charset := some (getAnEncoding value), needPragma := some false }
          else st
        metaAttrs dev fuel st rest'

/-- "Processing" -/
def metaResult (dev : Dev) (st : MetaSt) : Option Str :=
  match st.needPragma with
  | none => none
  | some need =>
    if need && !st.gotPragma then none
    else match st.charset with
      | some (some e) => some (finalMap dev e)
      | _ => none

/-- deviation `eagerMeta`: html5lib's attribute-by-attribute decision.
`inl none` = ran out of bytes, `inl (some e)` = encoding found, `inr rest` = no declaration, continue after `rest` -/
def metaEager (dev : Dev) : Nat → List Bytes → Bool → Option Str → Bytes → Option Str ⊕ Bytes
  | 0, _, _, _, _ => .inl none
  | fuel + 1, seen, hasPragma, pending, rest =>
    match getAnAttribute dev rest with
    | .eof => .inl none
    | .none rest' => .inr rest'
    | .attr _ _ [] => .inl none             -- the closing quote is the last byte: html5lib runs off the end
    | .attr name value rest' =>
      if !dev.noDedup && seen.elem name then metaEager dev fuel seen hasPragma pending rest'
      else
        let seen := name :: seen
        if name = lit "http-equiv" then
          let hasPragma := value = lit "content-type"
          if hasPragma && pending.isSome then .inl (pending.map (finalMap dev))
          else metaEager dev fuel seen hasPragma pending rest'
        else if name = lit "charset" then
          match getAnEncoding value with
          | some e => .inl (some (finalMap dev e))
          | none => metaEager dev fuel seen hasPragma pending rest'
        else if name = lit "content" then
          match extractCharset dev value with
          | some e => if hasPragma then .inl (some (finalMap dev e)) else metaEager dev fuel seen hasPragma (some e) rest'
          | none => metaEager dev fuel seen hasPragma pending rest'
        else metaEager dev fuel seen hasPragma pending rest'

def skipAttrs (dev : Dev) : Nat → Bytes → Option Bytes
  | 0, _ => none
  | fuel + 1, rest =>
    match getAnAttribute dev rest with
    | .eof => none
    | .none rest' => some rest'
    | .attr _ _ rest' => skipAttrs dev fuel rest'

/-- position of the end of a comment: the first `>` preceded by `--` -/
def commentEnd : Bytes → Option Bytes
  | a :: b :: c :: r => if a = 45 && b = 45 && c = 62 then some r else commentEnd (b :: c :: r)
  | _ => none

def isLetter (c : Nat) : Bool := (65 ≤ c && c ≤ 90) || (97 ≤ c && c ≤ 122)

def letterAt (rest : Bytes) (i : Nat) : Bool := ((rest.drop i).head?.map isLetter).getD false

/-- the main loop; `rest` is the input from the position pointer on; `none` = no encoding -/
def prescanLoop (dev : Dev) : Nat → Bytes → Option Str
  | 0, _ => none
  | fuel + 1, rest =>
    match rest with
    | [] => none
    | _ :: tail =>
      let tagCase (nameFrom : Bytes) : Option Str :=
        -- skip the tag name, then all attributes
        let r := nameFrom.dropWhile (fun c => !(isAsciiWs c || c = 62 || (dev.ltTerminates && c = 60)))
        if dev.ltTerminates && r.head? = some 60 then prescanLoop dev fuel r      -- reprocess the `<`
        else match skipAttrs dev (r.length + 1) r with
          | none => none
          | some after => prescanLoop dev fuel (after.drop 1)
      let skipToGt (from_ : Bytes) : Option Str :=
        match from_.dropWhile (· ≠ 62) with
        | [] => none
        | _ :: after => prescanLoop dev fuel after
      if (lit "<!--").isPrefixOf rest then
        -- the two dashes may be those of `<!--`: search from the first dash
        match commentEnd (rest.drop (if dev.commentNoOverlap then 4 else 2)) with
        | some after => prescanLoop dev fuel after
        | none => none
      else if isPrefixCI (lit "<meta") rest &&
          ((rest.drop 5).head?.map (fun c => isAsciiWs c || (!dev.metaNeedsSpace && c = 47))).getD false then
        if dev.eagerMeta then
          match metaEager dev (rest.length + 1) [] false none (rest.drop 5) with
          | .inl r => r
          | .inr after => prescanLoop dev fuel (after.drop 1)
        else
          match metaAttrs dev (rest.length + 1) {} (rest.drop 5) with
          | none => none
          | some (st, after) =>
            match metaResult dev st with
            | some e => some e
            | none => prescanLoop dev fuel (after.drop 1)
      else if dev.metaNeedsSpace && isPrefixCI (lit "<meta") rest then
        if (rest.drop 5).isEmpty then none else prescanLoop dev fuel (rest.drop 6)
      else if (lit "</").isPrefixOf rest then
        if dev.endTagOffByOne then
          if (rest.drop 3).isEmpty then none
          else if letterAt rest 3 then tagCase (rest.drop 3) else skipToGt (rest.drop 2)
        else if letterAt rest 2 then tagCase (rest.drop 2) else skipToGt rest
      else if (lit "<!").isPrefixOf rest || (lit "<?").isPrefixOf rest then skipToGt rest
      else if rest.head? = some 60 && letterAt rest 1 then tagCase (rest.drop 1)
      else if dev.skipByteAfterLt && rest.head? = some 60 then
        if tail.isEmpty then none else prescanLoop dev fuel (tail.drop 1)
      else prescanLoop dev fuel tail

/-- "prescan a byte stream to determine its encoding" on the first 1024 bytes (with deviations `dev`) -/
def prescanWith (dev : Dev) (data : Bytes) : Option Str :=
  let d := data.take 1024
  prescanLoop dev (d.length + 1) d

/-- the algorithm of the standard -/
def prescan (data : Bytes) : Option Str := prescanWith {} data

end H5.Spec.Sniff
