/-
  H5.Wire — the line protocol of the driver (DESIGN appendix C, simplified):
  a request is a list of space-separated words; strings are hex code points joined
  by '.', the empty string is "-", Python `None` is "~"; lists carry a count prefix.
-/
import H5.Basic
namespace H5.Wire
open H5

def hexVal? (c : Char) : Option Nat :=
  if '0' ≤ c ∧ c ≤ '9' then some (c.toNat - 48)
  else if 'a' ≤ c ∧ c ≤ 'f' then some (c.toNat - 87)
  else if 'A' ≤ c ∧ c ≤ 'F' then some (c.toNat - 55)
  else none

def parseHex? (s : String) : Option Nat :=
  if s.isEmpty then none else
  s.toList.foldl (fun acc c => do let a ← acc; let d ← hexVal? c; pure (a * 16 + d)) (some 0)

def hexOfNat (n : Nat) : String := String.ofList ((toHexLower n).map Char.ofNat)

def encStr (s : Str) : String :=
  if s.isEmpty then "-" else ".".intercalate (s.map hexOfNat)

def decStr? (w : String) : Option Str :=
  if w == "-" then some [] else (w.splitOn ".").mapM parseHex?

def encOStr : Option Str → String
  | none => "~"
  | some s => encStr s

def decOStr? (w : String) : Option (Option Str) :=
  if w == "~" then some none else (decStr? w).map some

/-- word-stream reader -/
abbrev R := StateT (List String) Option

def word : R String := fun ws => match ws with
  | [] => none
  | w :: rest => some (w, rest)

def nat : R Nat := do let w ← word; (w.toNat? : Option Nat)
def str : R Str := do let w ← word; (decStr? w : Option Str)
def ostr : R (Option Str) := do let w ← word; (decOStr? w : Option (Option Str))
def bool : R Bool := do let w ← word; pure (w == "1")

def listN (p : R α) : Nat → R (List α)
  | 0 => pure []
  | n + 1 => do let x ← p; let xs ← listN p n; pure (x :: xs)

def list (p : R α) : R (List α) := do let n ← nat; listN p n

def attr : R Attr := do
  let ns ← ostr; let name ← str; let value ← str
  pure { ns, name, value }

def tok : R Tok := do
  let k ← word
  match k with
  | "D" => do let n ← ostr; let p ← ostr; let s ← ostr; pure (.doctype n p s)
  | "C" => do let s ← str; pure (.chars s)
  | "W" => do let s ← str; pure (.space s)
  | "S" => do let ns ← ostr; let n ← str; let a ← list attr; pure (.startTag ns n a)
  | "E" => do let ns ← ostr; let n ← str; pure (.endTag ns n)
  | "V" => do let ns ← ostr; let n ← str; let a ← list attr; pure (.emptyTag ns n a)
  | "M" => do let s ← str; pure (.comment s)
  | "Y" => do let s ← str; pure (.entity s)
  | "X" => do let s ← str; pure (.serr s)
  | _ => failure

def encBool (b : Bool) : String := if b then "1" else "0"

def encAttr (a : Attr) : String := s!"{encOStr a.ns} {encStr a.name} {encStr a.value}"

def encList (f : α → String) (l : List α) : String :=
  " ".intercalate (toString l.length :: l.map f)

def encTok : Tok → String
  | .doctype n p s => s!"D {encOStr n} {encOStr p} {encOStr s}"
  | .chars s => s!"C {encStr s}"
  | .space s => s!"W {encStr s}"
  | .startTag ns n a => s!"S {encOStr ns} {encStr n} {encList encAttr a}"
  | .endTag ns n => s!"E {encOStr ns} {encStr n}"
  | .emptyTag ns n a => s!"V {encOStr ns} {encStr n} {encList encAttr a}"
  | .comment s => s!"M {encStr s}"
  | .entity s => s!"Y {encStr s}"
  | .serr s => s!"X {encStr s}"

def encToks (ts : List Tok) : String := encList encTok ts


def encPair (p : Str × Str) : String := s!"{encStr p.1} {encStr p.2}"
def pair : R (Str × Str) := do let a ← str; let b ← str; pure (a, b)

def encTTok : TTok → String
  | .doctype n p s c => s!"D {encOStr n} {encOStr p} {encOStr s} {encBool c}"
  | .chars s => s!"C {encStr s}"
  | .space s => s!"W {encStr s}"
  | .startTag n a sc => s!"S {encStr n} {encList encPair a} {encBool sc}"
  | .endTag n a sc => s!"E {encStr n} {encList encPair a} {encBool sc}"
  | .comment s => s!"M {encStr s}"
  | .parseError c v => s!"P {encStr c} {encList encPair v}"

def encTToks (ts : List TTok) : String := encList encTTok ts

def ttok : R TTok := do
  let k ← word
  match k with
  | "D" => do let n ← ostr; let p ← ostr; let s ← ostr; let c ← bool; pure (.doctype n p s c)
  | "C" => do let s ← str; pure (.chars s)
  | "W" => do let s ← str; pure (.space s)
  | "S" => do let n ← str; let a ← list pair; let sc ← bool; pure (.startTag n a sc)
  | "E" => do let n ← str; let a ← list pair; let sc ← bool; pure (.endTag n a sc)
  | "M" => do let s ← str; pure (.comment s)
  | "P" => do let c ← str; let v ← list pair; pure (.parseError c v)
  | _ => failure

def encExcept (f : α → String) : Except PyErr α → String
  | .ok a => "ok " ++ f a
  | .error e => "err " ++ e.tag

partial def encTree : Tree → String
  | .doc cs => s!"(doc {encList encTree cs})"
  | .frag cs => s!"(frag {encList encTree cs})"
  | .doctype n p s => s!"(dt {encOStr n} {encOStr p} {encOStr s})"
  | .elem ns n a cs => s!"(el {encOStr ns} {encStr n} {encList encAttr a} {encList encTree cs})"
  | .text s => s!"(t {encStr s})"
  | .comment s => s!"(c {encStr s})"

/-- prefix encoding of an input tree: d/f <n> kids | y name pub sys | e ns name attrs <n> kids | t s | c s -/
partial def tree : R Tree := do
  let k ← word
  match k with
  | "d" => do let cs ← list tree; pure (.doc cs)
  | "f" => do let cs ← list tree; pure (.frag cs)
  | "y" => do let n ← ostr; let p ← ostr; let s ← ostr; pure (.doctype n p s)
  | "e" => do let ns ← ostr; let n ← str; let a ← list attr; let cs ← list tree; pure (.elem ns n a cs)
  | "t" => do let s ← str; pure (.text s)
  | "c" => do let s ← str; pure (.comment s)
  | _ => failure

/-- run a reader on a whole line's words; all words must be consumed -/
def run (p : R α) (ws : List String) : Option α :=
  match p ws with
  | some (a, []) => some a
  | _ => none

end H5.Wire
